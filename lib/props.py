"""Per-property check definitions."""
from kflow import K, run_kani_jobs

ALL = ("std", "alloc", "none")
KANI_TRUSTED = ["Kani 0.68 / CBMC 6.11 / CaDiCaL (translation of the compiled MIR of /repo + nom + core to a SAT problem)",
                "stub alloc::fmt::format -> String::new() (error texts are not part of any property)"]


def c03(res, tier, seed):
    jobs = []
    if tier == "quick":
        jobs += K("c03_unarmor_n16", ALL, timeout=600)
    else:
        jobs += K("c03_unarmor_n16", ALL, timeout=900) + K("c03_unarmor_n32", ALL, timeout=2700)
    run_kani_jobs(res, jobs)
    res.assumptions += ["input length n <= %d armored characters (all 256 byte values at every position, fill 0..=5); longer strings "
                        "are outside the claim (the period-4 argument is not machine-checked)" % (16 if tier == "quick" else 32)]
    return {"functions_encoded": ["ais::messages::unarmor (compiled, incl. Vec / heapless::Vec)"],
            "bounds": {"n_max": 16 if tier == "quick" else 32, "fill": "0..=5", "unwind": "n_max+2, unwinding assertions on"},
            "technique": "Kani/CBMC bounded model checking of unarmor against a bit-window reference (SAT, CaDiCaL)",
            "trusted": KANI_TRUSTED}


CHECKS = {"C03": c03}
