import json
"""Per-property check definitions."""
from kflow import K, run_kani_jobs

ALL = ("std", "alloc", "none")
KANI_TRUSTED = ["Kani 0.68 / CBMC 6.11 / CaDiCaL (translation of the compiled MIR of /repo + nom + core to a SAT problem)",
                "stub alloc::fmt::format -> String::new() (error texts are not part of any property)"]


def c03(res, tier, seed):
    jobs = []
    if tier == "quick":
        jobs += K("c03_unarmor_n16", ALL, timeout=600)
    else:
        jobs += K("c03_unarmor_n16", ALL, timeout=900) + K("c03_unarmor_n32", ALL, timeout=2700)
    run_kani_jobs(res, jobs)
    # engine M, layer U: the loop of unarmor cut at its header (base / step / exit of a loop invariant): strings of any length
    import mu
    from kflow import write_replay
    from mir.parse import Unsupported
    any_len = {}
    for cfg in (("std", "none") if tier == "quick" else ALL):
        try:
            okc, findings, syms = mu.check(res, cfg, timeout_s=300 if tier == "quick" else 1200)
        except Unsupported as e:
            any_len[cfg] = "not established: engine M could not encode unarmor: %s" % str(e)[:300]
            continue
        if okc:
            any_len[cfg] = "established"
            continue
        conf = mu.confirm(res, cfg, findings, syms)
        if conf:
            seen = set()
            for cf in conf:
                if cf["query"] in seen:
                    continue
                seen.add(cf["query"])
                rec = {"property": "C03", "engine": "M", "query": cf["query"] + "[%s]" % cfg, "cfg": cfg, "call": "ais::messages::unarmor(data, fill)",
                       "data_hex": cf["data"].hex(), "fill": cf["fill"], "length": cf["length"], "real_result": cf["got"], "specified_result": cf["want"]}
                path = write_replay("C03", rec)
                res.violations.append({"what": "unarmor[%s]: %d characters, fill %d: real code gives %s, the specification %s (found from the %s query)" % (
                    cfg, cf["length"], cf["fill"], _short(cf["got"]), _short(cf["want"]), cf["query"]), "replay": path})
            any_len[cfg] = "violated (confirmed natively)"
        else:
            # a step / exit counterexample may start in an unreachable state: without a confirmed string nothing is reported; the
            # bounded Kani verdict above stands and the claim for longer strings is simply not made for this configuration
            any_len[cfg] = "not established: %s; no string built from the models disagrees with the specification natively" % \
                ", ".join("%s: %s" % (q, r) for q, m, r in findings[:4])
    res.extra["unarmor_any_length_verdict"] = any_len
    nmax = 16 if tier == "quick" else 32
    res.assumptions += ["Kani part: input length n <= %d armored characters (all 256 byte values at every position, fill 0..=5)" % nmax,
                        "engine M part: any length n <= 2^32 (usize arithmetic on 6n cannot wrap below that), fill 0..=5, by a loop invariant "
                        "(base, one arbitrary iteration, exit) over the function's MIR; the invariant templates (scalars linear in the "
                        "iteration count, output = specification of the prefix, rest zero) are checked, not assumed; where they do not fit "
                        "an implementation the verdict for longer strings is 'not established' and only the Kani bound is claimed: %s" % any_len,
                        "library calls of unarmor summarised: vec![0; n], heapless Vec::resize (Err iff n > capacity), index / index_mut "
                        "(bounds-checked), slice iteration, &u8 - u8 (overflow-checked), cmp::min, format! (opaque)"]
    return {"functions_encoded": ["ais::messages::unarmor (compiled, incl. Vec / heapless::Vec; and from its MIR, loop cut at the header)"],
            "bounds": {"n_max_kani": nmax, "n_max_engine_M": "2^32 (no unrolling)", "fill": "0..=5", "unwind": "n_max+2, unwinding assertions on"},
            "technique": "Kani/CBMC bounded model checking of unarmor against a bit-window reference (SAT, CaDiCaL) + SMT (z3, QF_ABV) loop-invariant "
                         "queries over the function's MIR with Skolemised bit positions, counterexamples replayed natively",
            "trusted": KANI_TRUSTED + ["engine M: the MIR parser/executor and the summaries of the library calls listed under assumptions"]}


def _short(x):
    x = "error" if x is None else str(x)
    return x if len(x) <= 40 else x[:18] + ".." + x[-18:]


C04_PLAIN = ["c04_t01", "c04_t04", "c04_t11", "c04_t06", "c04_t07_n1", "c04_t07_n2", "c04_t07_n3", "c04_t07_n4",
             "c04_t13_n1", "c04_t13_n2", "c04_t13_n3", "c04_t13_n4", "c04_t08", "c04_t09", "c04_t10",
             "c04_t15_88", "c04_t15_110", "c04_t15_160", "c04_t16_96", "c04_t16_144", "c04_t17", "c04_t18",
             "c04_t20_n1", "c04_t20_n2", "c04_t20_n3", "c04_t20_n4", "c04_t27"]
C04_TEXT = ["c04_t05", "c04_t12", "c04_t14", "c04_t19", "c04_t21", "c04_t24a", "c04_t24b"]
SKIPTEXT_NOTE = ("stub ais::messages::parsers::parse_6bit_ascii -> skip_text_stub (same end-of-input rule, same bits consumed, "
                 "empty string) in the harnesses of the text-bearing types 5/12/14/19/21/24; the text itself is C13's subject")


def c04(res, tier, seed):
    cfgs = ("std",) if tier == "quick" else ALL
    jobs = []
    for h in C04_PLAIN + C04_TEXT:
        jobs += K(h, cfgs, timeout=600 if tier == "quick" else 1800)
    run_kani_jobs(res, jobs)
    import golden
    golden.cross_check(res, C04_PLAIN + C04_TEXT)
    res.assumptions += ["payload length = the specification length of the layout branch (other lengths: C14)",
                        "type bits pinned to the type only where the parser branches on them (1-3, 4, 11, 9)", SKIPTEXT_NOTE,
                        "quick tier: std configuration only (alloc / no-alloc: thorough tier and C18)"]
    return {"functions_encoded": ["<X as AisMessageType>::parse for the 21 message structs (compiled, incl. nom bit parsers)"],
            "bounds": {"payload": "exact spec length per layout branch, all bits symbolic", "unwind": 6},
            "technique": "Kani/CBMC: per layout, decoded field == bits(payload, offset, width) from the ITU-R M.1371-5 tables, all payloads at once",
            "trusted": KANI_TRUSTED + ["field tables in kani/src/p_c04.rs (transcribed from M.1371-5; cross-checked on the repo's golden vectors)"]}


def simple(names_plain, names_text, functions, bounds, technique, assumptions, trusted_extra=()):
    def f(res, tier, seed):
        cfgs = ("std",) if tier == "quick" else ALL
        jobs = []
        for h in list(names_plain) + list(names_text):
            jobs += K(h, cfgs, timeout=900 if tier == "quick" else 2700)
        run_kani_jobs(res, jobs)
        import golden
        golden.cross_check(res, list(names_plain) + list(names_text))
        res.assumptions += list(assumptions) + ["quick tier: std configuration only (alloc / no-alloc: thorough tier and C18)"]
        if names_text:
            res.assumptions.append(SKIPTEXT_NOTE)
        return {"functions_encoded": functions, "bounds": bounds, "technique": technique, "trusted": KANI_TRUSTED + list(trusted_extra)}
    return f


C09_PLAIN = ["c09_message_type_leaf"] + ["c09_own_t%02d" % t for t in (1, 4, 6, 7, 8, 9, 10, 11, 13, 15, 16, 17, 18, 20, 27)]
C09_TEXT = ["c09_own_t%02d" % t for t in (5, 12, 14, 19, 21, 24)]
C11_PLAIN = ["c10_leaf_lon", "c10_leaf_lat", "c10_leaf_sog_cog", "c11_t01", "c11_t04", "c11_t11", "c11_t09", "c11_t15", "c11_t15_88", "c11_t15_110", "c10_t17", "c11_t18", "c11_t27"]
C11_TEXT = ["c11_t05", "c11_t19", "c11_t21"]
C12_PLAIN = ["c12_leaf_small", "c12_leaf_shiptype", "c12_t01", "c12_t04", "c12_t11", "c12_t09", "c12_t18", "c12_t27"]
C12_TEXT = ["c12_t05", "c12_t19", "c12_t21", "c12_t24"]
C16_PLAIN = ["c16_t01", "c16_t04", "c16_t11", "c16_t18", "c16_t09"]

PAYLOAD_FN = ["<X as AisMessageType>::parse for the message structs named by the harnesses (compiled, incl. nom bit parsers)"]

C10_FAST = {"c10w_t01": "c10_t01", "c10w_t04": "c10_t04", "c10w_t11": "c10_t11", "c10w_t09": "c10_t09", "c10w_t18": "c10_t18",
            "c10w_t19": "c10_t19", "c10w_t21": "c10_t21"}
C10_LEAVES = ["c10_leaf_lon", "c10_leaf_lat", "c10_leaf_sog_cog"]
C10_DIRECT_CHEAP = ["c10_t05", "c10_t17", "c10_t27_lon", "c10_t27_lat", "c10_t27_sogcog"]


def c10(res, tier, seed):
    cfgs = ("std",) if tier == "quick" else ALL
    jobs = []
    for h in C10_LEAVES + C10_DIRECT_CHEAP + sorted(C10_FAST):
        jobs += K(h, cfgs, timeout=900 if tier == "quick" else 2700)
    if tier == "thorough":
        # the direct float harnesses (no leaf stubs) for every carrying type, std only (5-6 min each)
        for h in sorted(set(C10_FAST.values())):
            jobs += K(h, ("std",), timeout=2700)
    run_kani_jobs(res, jobs, fallback=C10_FAST)
    import golden
    golden.cross_check(res, sorted(set(C10_FAST.values())) + C10_DIRECT_CHEAP)
    res.assumptions += ["'correct to single-precision rounding' read as ULP distance <= 1 from the single-precision quotient (DESIGN.md C10)",
                        "wiring harnesses c10w_*: navigation::parse_longitude/latitude/speed_over_ground/cog replaced by tagged identity "
                        "encodings (integer reasoning only); the leaves are verified for every raw value by c10_leaf_*; a failing c10w_* "
                        "harness is re-decided by the direct float harness of the same type before anything is reported", SKIPTEXT_NOTE,
                        "quick tier: std configuration only"]
    return {"functions_encoded": PAYLOAD_FN + ["navigation::parse_longitude/latitude/speed_over_ground/cog", "parsers::signed_i32"],
            "bounds": {"payload": "exact spec length, all bits symbolic (all 2^28/2^27/2^18/2^17 raw coordinates incl. the most negative)", "unwind": 6},
            "technique": "Kani/CBMC: leaf f32 within ULP distance 1 of (raw as f32)/D for every raw; wiring: leaf argument == sign_extend(bits) per type; exact equality for undivided fields",
            "trusted": KANI_TRUSTED}


c11 = simple(C11_PLAIN, C11_TEXT, PAYLOAD_FN + ["navigation::parse_*", "parsers::parse_year/month/day/minsec"],
             {"payload": "exact spec length, all bits symbolic", "unwind": 6},
             "Kani/CBMC: field absent <=> raw bits == sentinel at the field's own resolution; present values equal the raw bits", [])
c12 = simple(C12_PLAIN, C12_TEXT, PAYLOAD_FN + ["NavigationStatus/ManeuverIndicator/EpfdType/ShipType/NavaidType/SyncState::parse, Dte::from, Accuracy/AssignedMode/CarrierSense::parse, From<ShipType> for u8"],
             {"codes": "all 256 values of every code (two-variable query for injectivity)", "unwind": 6},
             "Kani/CBMC: code -> variant table from M.1371 compared with matches!, injectivity as a two-variable query, wiring per carrying type", [])
c16 = simple(C16_PLAIN + ["c16_residual_t09"], [], PAYLOAD_FN + ["radio_status::parse_radio, SotdmaMessage::parse, ItdmaMessage::parse, SubMessage::parse"],
             {"payload": "168 bits, all symbolic: all 2^19 states (2^20 with selector) x all other bits", "unwind": 6},
             "Kani/CBMC: decoded RadioStatus structurally equal to the SOTDMA/ITDMA reference decode of bits 149..168 (selector 148 for 9/18)",
             ["SOTDMA time-out 1: minute asserted only when the 7-bit spec minute is < 64 (oracle neutrality, DESIGN.md C16)"])

C14_PLAIN = ["c14_t01", "c14_t04", "c14_t09", "c14_t10", "c14_t11", "c14_t18", "c14_t27", "c14_t06", "c14_t08", "c14_t17", "c14_t07",
             "c14_t13", "c14_t20", "c14_t16", "c14_t15"]
C14_TEXT = ["c14_t19", "c14_t21", "c14_t24", "c14_t05", "c14_t12", "c14_t14"]
C14_QUICK_P = ["c14_t10", "c14_t27", "c14_t06", "c14_t08", "c14_t17", "c14_t07", "c14_t13", "c14_t20", "c14_t16", "c14_t15"]
C14_QUICK_T = ["c14_t24", "c14_t05", "c14_t12", "c14_t14"]


def c14(res, tier, seed):
    if tier == "quick":
        f = simple(C14_QUICK_P, C14_QUICK_T, *C14_ARGS)
    else:
        f = simple(C14_PLAIN, C14_TEXT, *C14_ARGS)
    r = f(res, tier, seed)
    if tier == "quick":
        # the list types go through nom_noalloc::many_m_n in the no-allocator build: run them there too
        run_kani_jobs(res, K("c14_t07", ("none",), timeout=900) + K("c14_t13", ("none",), timeout=900) + K("c14_t20", ("none",), timeout=900) + K("c14_t15", ("none",), timeout=900))
        res.assumptions.append("quick tier: the variable-length types (5, 6, 7, 8, 12-17, 20, 24) and the short fixed ones (10, 27); the 168..312-bit "
                               "fixed layouts 1-4, 9, 11, 18, 19, 21 (short payload => error) run in the thorough tier (3-5 min each)")
    return r


C14_ARGS = ( PAYLOAD_FN + ["nom::multi::many_m_n / nom_noalloc::many_m_n", "parsers::remaining_bits"],
             {"payload": "symbolic length 0..=spec maximum + 2 bytes per type, all contents symbolic", "unwind": 7},
             "Kani/CBMC: per type, symbolic payload length; reject <=> mandatory part missing; element count = complete elements present; reported values = bits at spec position (zero beyond the end)",
             ["lengths the specification does not produce (type 15: 76..87 and 120..159 bits, type 17: 80..119 bits) are neutral on accept/reject",
              "type 5 'missing DTE' read as: no bit left after the destination characters present (DESIGN.md C14)"])
C15_SMALL = ["c15_t06_p000", "c15_t06_p001", "c15_t06_p009", "c15_t08_p000", "c15_t08_p002", "c15_t08_p008", "c15_t17_p000", "c15_t17_p003"]
C15_LARGE = ["c15_t06_p064", "c15_t06_p115", "c15_t06_p119", "c15_t06_p120", "c15_t08_p063", "c15_t08_p119", "c15_t08_p120", "c15_t17_p087", "c15_t17_p120",
             "c15_t08_p032", "c15_t08_p100", "c15_t08_p117", "c15_t08_p118", "c15_t06_p033", "c15_t06_p100", "c15_t06_p114", "c15_t17_p040", "c15_t17_p086"]


def c15(res, tier, seed):
    jobs = []
    for h in C15_SMALL:
        jobs += K(h, ("std", "none") if tier == "quick" else ALL, timeout=900)
    for h in (["c15_t06_p119", "c15_t06_p120", "c15_t08_p063", "c15_t08_p119", "c15_t08_p120", "c15_t17_p087", "c15_t17_p120"] if tier == "quick" else C15_LARGE):
        jobs += K(h, ("std", "none") if tier == "quick" else ALL, timeout=2700)
    run_kani_jobs(res, jobs)
    res.assumptions += ["data length concrete per harness: 0,1,2,3,8,9, 63 (type 8), 87 (type 17 maximum), 119 and 120 (types 6 and 8; 120 also type 17) - thorough adds 32/33, 40, 64, 86, 100, 114, 115, 117, 118; other lengths outside the claim "
                        "(a symbolic-length harness exhausts memory in CBMC: the copy into a Vec of symbolic length; tried, dropped)",
                        "header and data contents fully symbolic"]
    return {"functions_encoded": ["BinaryAddressedMessage::parse", "BinaryBroadcastMessage::parse", "DgnssBroadcastBinaryMessage::parse",
                                  "Vec<u8>::from(&[u8]) / heapless::Vec::try_from"],
            "bounds": {"data_bytes": "0..=120 at the listed lengths", "unwind": "data bytes + 3"},
            "technique": "Kani/CBMC: out.len() == len - header and out[i] == payload[header+i] for all i; no-alloc: > 119 bytes must be Err",
            "trusted": KANI_TRUSTED}


C13_QUICK = ["c13_t14_k01", "c13_t14_k02", "c13_t14_k04", "c13_t14_k05", "c13_t14_k06", "c13_t14_k08", "c13_t12_k01", "c13_t12_k04", "c13_t12_k08"]
# the real decoder on 20-character fields (c13_t24a/t19/t21/t05, k16/k20 in std, 24 B's three fields together) exhausts 30 GB or 45 min in
# CBMC (measured again in the last thorough run: ERROR / TIMEOUT): those harnesses stay in the crate but are no longer part of a tier;
# the fixed-width fields are covered by the decoder at k <= 12 (all 64^k strings) + the transparent-decoder wiring harnesses c13r_*
C13_LONG = ["c13_t14_k12"]
C13_WIRED = ["c13r_t24a", "c13r_t24b", "c13r_t19", "c13r_t21", "c13r_t05", "c13r_t05_trunc"]


C13_RANGE = ["c13w_t12_n126", "c13w_t12_n125", "c13w_t12_n124", "c13w_t12_n066", "c13w_t12_n024", "c13w_t12_n025",
             "c13w_t14_n126", "c13w_t14_n125", "c13w_t14_n124", "c13w_t14_n066", "c13w_t14_n020", "c13w_t14_n021",
             "c13w_t05_n037", "c13w_t05_n038", "c13w_t05_n040", "c13w_t05_n041", "c13w_t05_n043", "c13w_t05_n046", "c13w_t05_n049",
             "c13w_t05_n052", "c13w_t05_n053", "c13w_t05_n055"]


def c13(res, tier, seed):
    jobs, heavy = [], []
    if tier == "quick":
        for h in C13_QUICK:
            jobs += K(h, ("std",), timeout=900)
        for h in ("c13_t14_k04",):
            jobs += K(h, ("none",), timeout=900)
        for h in C13_RANGE:
            jobs += K(h, ("std", "none"), timeout=600)
        for h in C13_WIRED:
            jobs += K(h, ("std", "none"), timeout=900)
    else:
        for h in C13_QUICK:
            jobs += K(h, ALL, timeout=1800)
        for h in C13_RANGE:
            jobs += K(h, ALL, timeout=900)
        # the real decoder at 12 / 16 characters holds 8-18 GB: a second phase with at most two CBMC processes per configuration
        for h in C13_LONG:
            heavy += K(h, ("std", "none"), timeout=2700, mem_gb=30)
        heavy += K("c13_t14_k16", ("none",), timeout=2700, mem_gb=30)
        for h in C13_WIRED:
            jobs += K(h, ALL, timeout=1800)
    run_kani_jobs(res, jobs)
    if heavy:
        run_kani_jobs(res, heavy, workers=4)
    res.assumptions += ["range wiring of the variable-length texts (c13w_*): the decoder parse_6bit_ascii is replaced by len_text_stub (same "
                        "end-of-input and capacity rules, one non-padding character per character of the requested range), the payload is all "
                        "ones (every 6-bit group is '?', so that natively the real decoder yields the same length), the payload length is "
                        "concrete per harness: type 12 and 14 at 126, 125, 124 bytes (the 1008-bit maximum: 156 / 161 characters), 66 and "
                        "around the 20-character capacity; type 5 at 37, 38, 40, 41, 43, 46, 49, 52, 53, 55 bytes (truncated destination); "
                        "decoder (c13_*) and range wiring (c13w_*) together give the text of long fields, other lengths are outside the claim"]
    res.assumptions += ["stub core::str::from_utf8 -> ASCII-asserting stub (its assertion is the 'always valid ASCII' clause)",
                        "real decoder: safety texts (types 12, 14) of 1..8 characters quick, 12 (16 in the no-allocator build) thorough, all 64^k strings, "
                        "all other payload bits symbolic; the real decoder on the 20-character fields exceeds 30 GB / 45 min in CBMC and is not run",
                        "fixed-width fields (24 A name, 24 B vendor / model / call sign, 19 and 21 names, 5 call sign / name / destination incl. a "
                        "9-character truncation): harnesses c13r_* with the decoder replaced by raw_text_stub (character i = 0x21 + 6-bit value i of the "
                        "requested range; natively the real decoder runs and is compared with the reference decode + trim; the characters of the ranges are assumed "
                        "to be neither '@' nor ' ', so that nothing is trimmed and counter-examples reproduce natively): which bits reach the "
                        "decoder, whole payload symbolic (10-50 s each once the stub builds its string in one piece: pushing symbolic chars into a String cost 50 GB)"]
    return {"functions_encoded": ["parsers::parse_6bit_ascii, sixbit_to_ascii, nom::multi::count / nom_noalloc::count, str::trim_start/trim_end_matches/trim_end",
                                  "the carrying message parsers"],
            "bounds": {"characters": "real decoder: <= 8 quick, <= 12 (16 no-alloc) thorough, all 64^k strings, all other payload bits symbolic; range / wiring harnesses: 20-character fields and texts up to the 1008-bit maximum", "unwind": "k+2"},
            "technique": "Kani/CBMC: decoded string == reference 6-bit table + three explicit trim loops, byte for byte",
            "trusted": KANI_TRUSTED}


C01_FIX_P = ["c01_fix_t%02d" % t for t in (1, 4, 6, 7, 8, 9, 10, 11, 13, 15, 16, 17, 18, 20, 27)]
C01_FIX_T = ["c01_fix_t%02d" % t for t in (5, 12, 14, 19, 21, 24)]
C01_LEN_P = ["c01_len_t%02d" % t for t in (1, 4, 6, 7, 8, 9, 10, 11, 13, 15, 16, 17, 18, 20, 27)]
C01_LEN_T = ["c01_len_t%02d" % t for t in (5, 12, 14, 19, 21, 24)]
C01_LEN_CHEAP = ["c01_len_t%02d" % t for t in (6, 8, 10, 12, 14, 16, 27)]


def c01_kani_jobs(tier):
    jobs = []
    if tier == "quick":
        jobs += K("c01_unarmor_n16", ALL, timeout=600)
        for h in C01_FIX_P + C01_FIX_T:
            jobs += K(h, ("std",), timeout=900)
        for h in ("c01_fix_t05", "c01_fix_t07", "c01_fix_t15", "c01_fix_t20", "c01_fix_t06", "c01_fix_t17", "c01_fix_t24"):
            jobs += K(h, ("none",), timeout=900)   # the types with heapless containers
        # symbolic payload length 0..=spec max + 2 bytes: every type with a variable or truncatable tail (the fixed layouts
        # 1-4, 9, 11, 18, 19 take 3-5 min each: thorough tier)
        for t in (5, 6, 7, 8, 10, 12, 13, 14, 15, 16, 17, 20, 21, 24, 27):
            jobs += K("c01_len_t%02d" % t, ("std",), timeout=1200)
        jobs += K("c01_text_t14_k04", ("std",), timeout=900)
        jobs += K("c01_text_t14_k21", ("none",), timeout=900) + K("c01_text_t12_k21", ("none",), timeout=900)
        jobs += K("c01_long_t14", ("std", "none"), timeout=900)
    else:
        jobs += K("c01_unarmor_n16", ALL, timeout=900) + K("c01_unarmor_n40", ALL, timeout=2700)
        for h in C01_FIX_P + C01_FIX_T + C01_LEN_P + C01_LEN_T + ["c01_long_t14", "c01_long_t12"]:
            jobs += K(h, ALL, timeout=2700)
        jobs += K("c01_text_t14_k04", ALL, timeout=2700)
        # (the real 21-character text decode in the std / alloc builds exhausts 24 GB: it stays with the no-allocator build, where the
        #  capacity error ends it early; std / alloc texts are C13's subject at <= 20 characters)
        jobs += K("c01_text_t14_k21", ("none",), timeout=2700) + K("c01_text_t12_k21", ("none",), timeout=2700)
    return jobs


def c01(res, tier, seed):
    run_kani_jobs(res, c01_kani_jobs(tier))
    # layer S: no MIR assert / unreachable edge of AisParser::parse reachable from any parser state (all three configurations)
    msq, ql, rels = m_setup(res, ALL, seed)
    for c, rel in rels.items():
        msq.q_no_panic(res, rel, ql, k_bmc=3)
    # layer T: no panic edge in the sentence parser for any line
    mt, cxs = mt_setup(res, ("std", "none") if tier == "quick" else ALL, tier, seed)
    for cx in cxs:
        mt.q_no_panic(cx)
        # the payload layer's harnesses assume what the sentence layer hands over (fill count 0..=5, non-empty payload, ...):
        # that hand-over contract is discharged here as well, so that the decomposition of this property is closed
        mt.q_handover_for_totality(cx)
        mt.run_queries(cx, timeout_s=300 if tier == "quick" else 1200)
    mt_gap_no_panic(res, ("std", "none") if tier == "quick" else ALL, seed)
    res.assumptions += ["payload layer: per message type the exact specification length (quick) and a symbolic length 0..=spec max + 2 bytes (thorough; "
                        "quick for the cheap types), all bits symbolic including the type bits", SKIPTEXT_NOTE +
                        "; the real text decoder is run on safety texts of 4 and 21 characters (21 > the no-allocator capacity)",
                        "unarmor: n <= 16 characters (thorough 40), fill 0..=5",
                        "the dispatcher messages::parse is not run under Kani (21-variant result type, > 19 min); its own control flow is covered by C09's MIR query",
                        "state layer (engine M): every MIR assert (overflow checks) and unreachable terminator of AisParser::parse and its callees, from an arbitrary parser state",
                        "text layer (engine M): panics inside nom / core (slice indexing in hex_u32, u8::from_str) are not visible to the semantics table; "
                        "lines of at most %d bytes, every byte symbolic; plus (panic edges only) lines of 24 symbolic bytes with a run of up to 60000 copies of one "
                        "payload character inserted anywhere; termination: every encoded body is loop-free and the table's scans are bounded by the line length" % MT_N[tier],
                        "decode in {true,false}: symbolic in the state layer; the payload layer is what decode=true adds"]
    meta = mt_meta(tier)
    meta["functions_encoded"] = PAYLOAD_FN + ["messages::unarmor", "nom_noalloc::count / many_m_n (no-alloc)"] + meta["functions_encoded"]
    meta["bounds"].update({"payload": "spec length (quick) / symbolic length up to spec max + 2 (thorough)", "unarmor_n": 16 if tier == "quick" else 40, "unwind": 7})
    meta["technique"] = "Kani/CBMC built-in checks over arbitrary payloads + engine M: reachability of panic edges in the MIR of the state machine and the sentence parser"
    meta["trusted"] = KANI_TRUSTED + meta["trusted"]
    return meta


def c18(res, tier, seed):
    # (i) the same configuration-independent oracle in the three builds: verdicts must agree harness by harness
    names = ["c03_unarmor_n16", "c04_t01", "c04_t07_n4", "c04_t15_160", "c04_t20_n4", "c11_t27", "c12_t24", "c16_t18", "c14_t07", "c14_t15",
             "c15_t06_p009", "c13_t14_k04"]
    if tier == "thorough":
        names += C04_PLAIN + C04_TEXT + ["c14_t20", "c14_t16", "c14_t05", "c12_t05", "c11_t05", "c10_t17"]
    names = sorted(set(names))
    jobs = []
    for h in names:
        jobs += K(h, ALL, timeout=900 if tier == "quick" else 2700)
    # capacity edges of the no-allocator build: must be errors, never panics or truncation
    for h in ("c15_t06_p119", "c15_t06_p120", "c15_t08_p120", "c01_text_t14_k21", "c01_text_t12_k21"):
        jobs += K(h, ("none",), timeout=900)
    results = run_kani_jobs(res, jobs)
    by = {}
    for r in results:
        by.setdefault(r["harness"], {})[r["cfg"]] = r["outcome"]
    res.extra["verdicts_per_configuration"] = by
    for h, d in by.items():
        if h in names and len(set(d.values())) > 1 and not any(h in v["what"] for v in res.violations):
            res.inconclusive.append("%s: verdicts differ between configurations: %s" % (h, d))
    # (ii) state machine: same state + same line => same outcome, next state and fields (within the capacity)
    msq, ql, rels = m_setup(res, ALL, seed)
    if "std" in rels:
        for c in ("alloc", "none"):
            if c in rels:
                msq.q_cfg_miter(res, rels["std"], rels[c], ql)
    if "none" in rels:
        r, m, st = msq.q_capacity(res, rels["none"], ql)
        if r != "unsat":
            # constructing > 384 payload bytes is slow for the sequence solver: decide on the capacity-scaled relation,
            # and look for a replayable history (rejected over-capacity fragment that leaves a trace = silent truncation later)
            w = msq.witness_relation(rels["none"])
            r2, m2, st2 = msq.q_capacity_scaled(res, w, ql)
            if r2 != "unsat":
                before = len(res.violations)
                msq.q_no_trace(res, rels["none"], ql, k_bmc=3 if tier == "quick" else 4)
                if len(res.violations) == before:
                    res.inconclusive.append("capacity-overflow[none]: %s / scaled %s, no replayable history found" % (r, r2))
    # (iii) text layer: the sentence parsers of the three builds on one symbolic line
    try:
        import mt
        N = MT_N[tier]
        base = {c: msq.relation(c) for c in ALL if c in rels}
        if "std" in base:
            ta = mt.build("std", N, mir_path=base["std"].mir_path)
            for c in ("alloc", "none"):
                if c in base:
                    tb = mt.build(c, N, mir_path=base[c].mir_path, line=ta.line)
                    mt.q_cfg_miter(res, ta, tb)
    except Exception as e:
        res.inconclusive.append("text-layer miter could not be built: %s" % str(e)[:300])
    res.assumptions += ["equivalence = every K harness listed runs against the same configuration-independent oracle in std, alloc and no-alloc (agreement by transitivity inside the bounds) "
                        "+ engine M miters of the fragment state machine's transition relation, configuration against configuration",
                        "error category = Nmea vs Checksum (+ decode / form / sequencing origin); message texts differ by design and are not compared",
                        "capacity edges (no-alloc): 119/120 binary bytes, 20/21 text characters, 384 reassembled bytes - each must be an error, not a panic or a truncation"]
    meta = m_meta(tier)
    meta["functions_encoded"] = PAYLOAD_FN + meta["functions_encoded"]
    meta["technique"] = "the same Kani harnesses in three build configurations + z3 miters between the MIR-derived transition relations of the three builds"
    meta["trusted"] = KANI_TRUSTED + meta["trusted"]
    return meta


c09k = simple(C09_PLAIN, C09_TEXT, PAYLOAD_FN + ["parsers::message_type"], {"payload": "spec length per type, all bits symbolic incl. the type bits", "unwind": 6},
              "Kani/CBMC leaves of C09", [])

M_TRUSTED = ["own MIR->SMT encoder (lib/mir): parser for rustc's textual MIR, path-enumerating symbolic executor; fails closed on any construct or callee outside its subset",
             "summary table lib/mir/summaries.py (Try::branch, from_residual, Option<u8>::ne, Vec default/extend_from_slice/deref, heapless extend_from_slice capacity rule, mem::swap, map_err, ...)",
             "layer cuts: parse_nmea_sentence = any accepted sentence with non-empty payload and fill < 6, or a rejection; unarmor / messages::parse = uninterpreted functions of (payload, fill); XOR fold = one symbolic byte",
             "z3 4.8.12 (sequence theory for payload concatenation); nightly rustc MIR (-Zunpretty=mir, overflow-checks=on)"]
M_FUNCS = ["AisParser::parse", "AisParser::verify_and_extend_data", "AisParser::check_checksum (minus the fold)", "AisSentence::has_more", "AisSentence::is_fragment"]


def m_setup(res, cfgs, seed):
    import msq
    ql = msq.QueryLog()
    rels = {}
    for c in cfgs:
        try:
            rels[c] = msq.relation(c)
        except Exception as e:   # Unsupported MIR / dump failure: inconclusive, never a pass
            res.inconclusive.append("engine M could not encode AisParser::parse [%s]: %s" % (c, str(e)[:400]))
            continue
        msq.relation_evidence(res, rels[c])
        msq.sanity_paths_exhaustive(res, rels[c], ql)
        msq.translator_validation(res, rels[c], ql, seed)
    return msq, ql, rels


def m_meta(tier, extra_bounds=None):
    b = {"one_step_queries": "arbitrary parser state (any id, any number, payload of any length), arbitrary accepted sentence / rejected line",
         "bmc": "histories from a fresh parser, payload <= 2 bytes per fragment (replayable witnesses only)"}
    b.update(extra_bounds or {})
    return {"functions_encoded": M_FUNCS, "bounds": b, "technique": "symbolic execution of the MIR of AisParser::parse into a transition relation; z3 queries (inductive one-step + bounded histories); every model replayed on the real library",
            "trusted": M_TRUSTED}


def c05(res, tier, seed):
    msq, ql, rels = m_setup(res, ("std", "none") if tier == "quick" else ALL, seed)
    for c, rel in rels.items():
        msq.q_reassembly(res, rel, ql)
        msq.q_no_trace(res, rel, ql, k_bmc=3 if tier == "quick" else 4)
        msq.q_from_impls(res, rel, ql)
    res.assumptions += ["fragment counts: the inductive step covers every k -> k+1 for k < 255, hence n = 2..9 and beyond",
                        "'equals the unfragmented decode': the same uninterpreted unarmor/parse terms (layer P is verified by C03/C04/C09-C16)",
                        "interleaved rejected lines / unfragmented sentences: state unchanged (the C17 one-step query, re-run here)",
                        "no-alloc: within the 384-byte reassembly capacity"]
    return m_meta(tier)


def c06(res, tier, seed):
    msq, ql, rels = m_setup(res, ("std", "none") if tier == "quick" else ALL, seed)
    for c, rel in rels.items():
        ok = msq.q_only_groups(res, rel, ql, k_bmc=4 if tier == "quick" else 6)
        r = msq.q_only_groups_inductive(res, rel, ql)
        if ok and r != "unsat":
            res.inconclusive.append("C06 [%s]: bounded histories hold but the group invariant is not inductive on this code (%s) - unbounded claim not established" % (c, r))
    res.assumptions += ["validly numbered sentences (1 <= k <= n) as the property states; rejected lines arbitrary",
                        "bounded part: histories of <= %d lines from a fresh parser, payloads <= 2 bytes, decode off and decode on with undecodable payloads" % (4 if tier == "quick" else 6),
                        "unbounded part: invariant 'open => state = (id, last, concat); closed => state = (None, 0, _)' preserved by every step"]
    return m_meta(tier)


def c17(res, tier, seed):
    msq, ql, rels = m_setup(res, ("std", "none") if tier == "quick" else ALL, seed)
    for c, rel in rels.items():
        msq.q_no_trace(res, rel, ql, k_bmc=3 if tier == "quick" else 5)
    # parser instances are independent: parse touches only *self, its arguments and locals
    import re as _re, os as _os
    from common import REPO
    hits = []
    for root, _, files in _os.walk(_os.path.join(REPO, "src")):
        for f in files:
            if f.endswith(".rs"):
                t = open(_os.path.join(root, f)).read()
                for m in _re.finditer(r"static\s+mut|thread_local!|\bCell<|RefCell<|Atomic[A-Z]|lazy_static|OnceCell|OnceLock|Mutex<", t):
                    hits.append("%s: %s" % (f, m.group(0)))
    res.extra["global_state_scan"] = hits
    if hits:
        res.inconclusive.append("crate contains global / interior-mutable state (%s): parser-instance independence not established by the encoder" % hits[:3])
    res.assumptions += ["'rejected' = by form (layer T), checksum, fragment sequencing or (no-alloc) capacity; a group's last fragment whose payload does not decode is not in C17's list",
                        "instance independence: the encoded MIR reads/writes only *self, arguments and locals (the executor has no global places and fails closed on statics); source scan for static mut / interior mutability: %s" % (hits or "none")]
    return m_meta(tier)


def c09(res, tier, seed):
    import mdispatch
    mdispatch.run(res, ("std", "none") if tier == "quick" else ALL)
    c09k(res, tier, seed)
    res.assumptions += ["dispatch (engine M): the per-type decoders are nondeterministic callees (they are C04's subject); message_type returns any value < 64 or an error",
                        "leaves (Kani): message_type(d) == d[0] >> 2 for 1..4 bytes, Err for empty; each decoded struct's own message_type field == first six bits"]
    return {"functions_encoded": ["messages::parse (MIR, all arms)", "parsers::message_type (Kani)", "<X as AisMessageType>::parse own type field (Kani)"],
            "bounds": {"type_values": "all 64", "payload": "arbitrary (decoders abstracted) / spec length (Kani leaves)"},
            "technique": "symbolic execution of the dispatcher's MIR against the M.1371 type table (z3) + Kani leaves",
            "trusted": M_TRUSTED + KANI_TRUSTED}


MT_FUNCS = ["parse_nmea_sentence", "parse_ais_sentence", "parse_u8_digit", "parse_numeric_string", "the two verify closures", "From<&[u8]> for TalkerId / AisReportType",
            "AisParser::check_checksum incl. its fold closure"]
MT_TRUSTED = ["nom semantics table lib/mir/textlayer.py (take, tag, take_until, digit1, hex_u32, anychar, opt, alt, delimited, terminated, peek, all_consuming, map, map_res, verify; "
              "u8::from_str and str::from_utf8 on digit runs; Iterator::fold = closure applied left to right) - validated by the corpus translator validation, "
              "by the native replay of every model and by the repository's sentence tests",
              "messages::message_type(d) = d[0] >> 2, Err on empty input (proved by the Kani leaf c09_message_type_leaf)"]


MT_N = {"quick": 32, "thorough": 48}


def mt_gap_no_panic(res, cfgs, seed, N=24, timeout_s=600, width=16, queries=("q_no_panic",), hunt=False):
    """the sentence parser on lines far longer than the fully symbolic bound: N symbolic bytes with a run of one payload character
    inserted at a symbolic position.  With 16-bit positions (runs up to 60000) the panic-edge query takes seconds but the grammar
    miters do not finish in 25 min; with 12-bit positions (runs up to 3840) and N = 20 the two grammar miters take 11-12 min each
    (thorough tier of C08)."""
    import mt, msq
    from mir import textlayer as T
    for c in cfgs:
        with T.width(width):
            try:
                try:
                    mir_path = msq.relation(c).mir_path
                except Exception:
                    from mir.relation import dump_mir
                    from common import REPO, scratch
                    mir_path, _ = dump_mir(REPO, c, scratch())
                rel = mt.build(c, N, mir_path=mir_path, line=T.GapLine(N))
            except Exception as e:
                res.inconclusive.append("engine M could not encode the sentence parser on the long-line model [%s]: %s" % (c, str(e)[:400]))
                continue
            ref = mt.Ref(rel.line)
            res.extra.setdefault("text_layer_long_lines", {})["%s/w%d" % (c, width)] = dict(rel.stats, model="N=%d symbolic bytes + a run of <= %d copies of one payload character" % (N, rel.line.gmax))
            res.states += rel.stats["blocks_executed"]
            res.transitions += rel.stats["paths"]
            mt.translator_validation(res, rel, ref, seed)
            cx = mt.Ctx(res, rel, ref)
            for q in queries:
                getattr(mt, q)(cx)
            mt.run_queries(cx, timeout_s=timeout_s, hunt=hunt)
            note = ("long-line model [%s]: %d symbolic bytes + a run of <= %d copies of one payload character (not a digit, not a hex letter) at a symbolic "
                    "position; queries %s; %s" % (c, N, rel.line.gmax, ", ".join(queries),
                    "bug hunting only in this tier (budget %d s per query): an undecided query claims nothing" % timeout_s if hunt else "decided (UNSAT) or the run is inconclusive"))
            if note not in res.assumptions:
                res.assumptions.append(note)


def mt_setup(res, cfgs, tier, seed, N=None):
    import mt, msq
    out = []
    N = N or MT_N[tier]
    for c in cfgs:
        try:
            try:
                mir_path = msq.relation(c).mir_path
            except Exception:
                # the state layer cannot encode this AisParser::parse (e.g. it manipulates the line before parsing it): the text layer
                # only needs the MIR dump
                from mir.relation import dump_mir
                from common import REPO, scratch
                mir_path, _ = dump_mir(REPO, c, scratch())
            rel = mt.build(c, N, mir_path=mir_path)
        except Exception as e:
            res.inconclusive.append("engine M could not encode the sentence parser [%s]: %s" % (c, str(e)[:400]))
            continue
        ref = mt.Ref(rel.line)
        res.extra.setdefault("text_layer", {})[c] = dict(rel.stats, functions_encoded_from_mir=rel.functions_encoded, callees_summarised=len(rel.summarised))
        res.states += rel.stats["blocks_executed"]
        res.transitions += rel.stats["paths"]
        mt.translator_validation(res, rel, ref, seed)
        out.append(mt.Ctx(res, rel, ref))
    return mt, out


def mt_meta(tier):
    N = MT_N[tier]
    return {"functions_encoded": MT_FUNCS + M_FUNCS, "bounds": {"line_bytes": "all byte strings of length 0..=%d, every byte symbolic" % N},
            "technique": "symbolic execution of the sentence parser's MIR (nom applications by a semantics table) into QF_ABV formulas over a fully symbolic line; "
                         "z3 queries against a reference grammar / field extractor / checksum rule written from the property text; every model replayed natively",
            "trusted": M_TRUSTED + MT_TRUSTED}


MT_N_NMEA = 82          # the NMEA 0183 maximum sentence length: thorough tier of the two text-centric properties (C02, C08), std


def c02(res, tier, seed):
    mt, cxs = mt_setup(res, ("std",) if tier == "quick" else ALL, tier, seed)
    for cx in cxs:
        mt.q_gate(cx)
        mt.run_queries(cx, timeout_s=900 if tier == "quick" else 2400)
    if tier == "quick":
        # long lines (20 symbolic bytes + a run of up to 3840 copies of one payload character): bug hunting only in this tier - the
        # UNSAT proofs take 8-14 min (thorough tier), a violation is found in seconds
        mt_gap_no_panic(res, ("std",), seed, N=20, timeout_s=100, width=12, queries=("q_gate",), hunt=True)
    if tier == "thorough":
        mt, cxs = mt_setup(res, ("std",), tier, seed, N=MT_N_NMEA)
        for cx in cxs:
            mt.q_gate(cx)
            mt.run_queries(cx, timeout_s=4500)
        # long lines: 20 symbolic bytes + a run of up to 3840 copies of one payload character (checksummed ranges far beyond N)
        mt_gap_no_panic(res, ("std",), seed, N=20, timeout_s=4500, width=12, queries=("q_gate",))
    msq, ql, rels = m_setup(res, ("std", "none") if tier == "quick" else ALL, seed)
    for c, rel in rels.items():
        msq.q_checksum_gate(res, rel, ql)
    # Kani leaf on the real check_checksum (through the cfg-guarded hook): the fold covers every byte of ranges far beyond N
    run_kani_jobs(res, K("c02_fold_n400", ("std",), timeout=1800) + K("c02_fold_n96", ("none",), timeout=900) if tier == "quick"
                  else K("c02_fold_n96", ALL, timeout=900) + K("c02_fold_n400", ALL, timeout=2700))
    res.assumptions += ["text layer: lines of at most N bytes (see bounds); the S-layer queries cover any parser state",
                        "XOR fold + comparison (Kani, hook AisParser::verif_check_checksum): checksummed ranges of up to %d bytes, all contents" % 400]
    meta = mt_meta(tier)
    if tier == "thorough":
        meta["bounds"]["line_bytes_std"] = "additionally every byte string of length 0..=%d (the NMEA 0183 maximum sentence length) in the std build" % MT_N_NMEA
        meta["bounds"]["long_lines_std"] = "additionally lines of 20 symbolic bytes with a run of 0..=3840 copies of one payload character inserted at any position"
    meta["trusted"] = KANI_TRUSTED + meta["trusted"]
    return meta


def c08(res, tier, seed):
    mt, cxs = mt_setup(res, ("std",) if tier == "quick" else ALL, tier, seed)
    for cx in cxs:
        mt.q_shapes(cx)
        mt.q_postconditions(cx)
        mt.q_no_panic(cx)
        mt.run_queries(cx, timeout_s=900 if tier == "quick" else 2400)
    if tier == "quick":
        mt_gap_no_panic(res, ("std",), seed, N=20, timeout_s=100, width=12, queries=("q_shapes",), hunt=True)
    if tier == "thorough":
        mt, cxs = mt_setup(res, ("std",), tier, seed, N=MT_N_NMEA)
        for cx in cxs:
            mt.q_shapes(cx)
            mt.q_postconditions(cx)
            mt.run_queries(cx, timeout_s=4500)
        # long lines: 20 symbolic bytes + a run of up to 3840 copies of one payload character (both directions of the grammar miter)
        mt_gap_no_panic(res, ("std",), seed, N=20, timeout_s=4500, width=12, queries=("q_shapes",))
    res.assumptions += ["lines with a '*' inside the address / channel / payload fields are judged by C02 (first-'*' rule), C08's two queries are neutral on them"]
    meta = mt_meta(tier)
    if tier == "thorough":
        meta["bounds"]["line_bytes_std"] = "additionally every byte string of length 0..=%d (the NMEA 0183 maximum sentence length) in the std build" % MT_N_NMEA
        meta["bounds"]["long_lines_std"] = "additionally lines of 20 symbolic bytes with a run of 0..=3840 copies of one payload character inserted at any position"
    return meta


def c07(res, tier, seed):
    mt, cxs = mt_setup(res, ("std",) if tier == "quick" else ALL, tier, seed)
    for cx in cxs:
        mt.q_fields(cx)
        mt.run_queries(cx, timeout_s=900 if tier == "quick" else 2400)
    # long lines (20 symbolic bytes + a run of up to 3840 copies of one payload character): bug hunting only (quick 100 s, thorough 900 s)
    mt_gap_no_panic(res, ("std",), seed, N=20, timeout_s=100 if tier == "quick" else 900, width=12, queries=("q_fields",), hunt=True)
    msq, ql, rels = m_setup(res, ("std", "none") if tier == "quick" else ALL, seed)
    for c, rel in rels.items():
        msq.q_decode_flag(res, rel, ql)
    return mt_meta(tier)


def c19(res, tier, seed):
    from common import load_known_findings
    known = next((e for e in load_known_findings().get("known", []) if e["property"] == "C19"), None)
    mt, cxs = mt_setup(res, ("std",) if tier == "quick" else ALL, tier, seed)
    for cx in cxs:
        mt.q_message_type(cx, known)
    run_kani_jobs(res, K("c09_message_type_leaf", ("std",), timeout=600))
    return mt_meta(tier)


def c20(res, tier, seed):
    import mbin
    mbin.run(res, nlines=2 if tier == "quick" else 3)
    # the tool calls AisParser::parse(line, true) once per line and a panic there ends the process: the sentence layer's panic
    # edges and its hand-over contract to the payload layer are decided here too (the payload layer itself: C01's harnesses);
    # every witness line is piped through the real binary between two valid sentences before it is reported
    n0 = len(res.violations)
    mt, cxs = mt_setup(res, ("std",), tier, seed)
    for cx in cxs:
        mt.q_no_panic(cx)
        mt.q_handover_for_totality(cx)
        mt.run_queries(cx, timeout_s=300 if tier == "quick" else 1200)
    if len(res.violations) > n0:
        exe = mbin.build_binary()
        keep = res.violations[:n0]
        for v in res.violations[n0:]:
            try:
                rec = json.load(open(v["replay"]))
                line = bytes.fromhex(rec["line_hex"])
                rc, so, se = mbin.run_binary(exe, [mbin.VALID, line, mbin.VALID])
                rec["binary"] = {"stdin_lines_hex": [mbin.VALID.hex(), line.hex(), mbin.VALID.hex()], "exit_code": rc, "stdout_records": len(so), "stderr_records": len(se)}
                json.dump(rec, open(v["replay"], "w"), indent=1)
                if rc != 0 or len(so) < 2:
                    v["what"] = "aisparser stops at a line (exit code %s, %d of 2 valid sentences printed): %s" % (rc, len(so), v["what"])
                    keep.append(v)
                else:
                    res.norepro.append("the tool survives the line that panics in the library: %s" % v["what"][:200])
            except Exception as e:      # noqa
                res.inconclusive.append("could not pipe a witness line through the binary: %s" % e)
        res.violations[:] = keep
    res.assumptions += ["environment stubs: stdin().lock().split(b'\\n') yields Ok(line) per line in input order (no I/O errors); map/for_each apply their closures once per "
                        "line in order; _print/_eprint = one record each; str::from_utf8 = Ok iff the line is UTF-8 (both cases possible); "
                        "AisParser::parse = any of Complete / Incomplete / Err (C01 covers its totality)",
                        "%d symbolic lines per stream (the per-line closure has no state besides the parser)" % (2 if tier == "quick" else 3),
                        "not claimed: real process exit status and EOF handling beyond the replayed streams, stdin I/O errors, the Debug text of records"]
    return {"functions_encoded": ["main", "main::{closure#0}", "main::{closure#1}", "main::{closure#1}::{closure#0}", "parse_nmea_line (src/bin/aisparser.rs)"],
            "bounds": {"lines": 2 if tier == "quick" else 3, "line_content": "arbitrary (UTF-8-ness and parser outcome symbolic)"},
            "technique": "symbolic execution of the binary's MIR with nondeterministic environment stubs (z3); counter-examples replayed through a pipe into the real binary",
            "trusted": M_TRUSTED}


CHECKS = {"C03": c03, "C04": c04, "C10": c10, "C11": c11, "C12": c12, "C16": c16, "C14": c14, "C05": c05, "C06": c06, "C17": c17, "C01": c01, "C13": c13, "C15": c15, "C09": c09, "C20": c20, "C02": c02, "C07": c07, "C08": c08, "C19": c19, "C18": c18}
