"""C03 (engine M, layer U): messages::unarmor for strings of *any* length - the loop is not unrolled but cut at its header:

  base       the state in which the header is first reached satisfies Inv (i = 0)
  step       from an arbitrary state satisfying Inv, one iteration (executed from the MIR) re-establishes Inv, cannot panic, and can
             leave the function only with an error at a byte outside the alphabet
  exit       from an arbitrary state satisfying Inv with i = n, the code after the loop (fill masking) yields exactly the
             specification's bytes; exits before the loop are checked directly

Inv (for the code's loop-carried variables, found by differencing one iteration):
  - every scalar that changes by a constant d per iteration:  v = v0 + i*d        (template; d and v0 are read off the code)
  - the output buffer: for an arbitrary (Skolem) character index c and bit b < 6:  bit 6c+b of the buffer = bit b of val6(data[c])
    if c < i, else 0;  for an arbitrary padding position p >= 6n: bit p = 0;  its length is unchanged
  - for the same arbitrary c: c < i  =>  data[c] is in the alphabet
The Skolem constants make every query quantifier-free; unsat for arbitrary c, b, p is the universally quantified statement.
A satisfiable step / exit query may start in an unreachable state, so it is never reported by itself: a concrete string is built
from the model (and a small set of lengths around it), run through the real function natively, and compared with the specification."""
import os, re, time
import z3

from common import REPO, log, scratch
from mir import parse as P
from mir.exec import Executor, State, Agg, EnumV, RefV, Opaque, Outcome, Panic, ArrV, UNIT, Uninit, UNINIT
from mir.parse import Unsupported
from mir.relation import dump_mir
from mir.summaries import COMMON, compile_table, ok1
import ms

BV64 = z3.BitVecSort(64)
BV8 = z3.BitVecSort(8)
N_MAX = 1 << 32          # stated bound on the string length (usize arithmetic on 6n cannot wrap below it)


class ArrIter(Opaque):
    """core::slice::Iter over an ArrV: position pos (64-bit)"""

    def __init__(self, arr, pos, second=None, enumerated=False):
        Opaque.__init__(self, "iter", arr)
        self.pos = pos
        self.second = second          # zipped with (start, end, step): a stepped range
        self.enumerated = enumerated

    def clone(self, pos):
        return ArrIter(self.e, pos, self.second, self.enumerated)

    def __repr__(self):
        return "ArrIter(pos=%s)" % (self.pos,)


# ---------------------------------------------------------------- specification side
def alpha(x):
    return z3.Or(z3.And(z3.UGE(x, 48), z3.ULE(x, 87)), z3.And(z3.UGE(x, 96), z3.ULE(x, 119)))


def val6(x):
    return z3.If(z3.ULE(x, 87), x - 48, x - 56)


def bit_of(byte, k):
    """bit k (0 = least significant) of an 8-bit term, k an 8-bit or 64-bit term"""
    if k.size() > 8:
        k = z3.Extract(7, 0, k)
    return z3.Extract(0, 0, z3.LShR(byte, k)) == 1


def stream_bit(arr, j):
    """bit j of the byte array read most significant bit first"""
    return bit_of(z3.Select(arr, z3.LShR(j, 3)), z3.BitVecVal(7, 64) - (j & 7))


def py_unarmor(data, fill):
    """reference: None if a byte is outside the alphabet, else the bytes"""
    vals = []
    for x in data:
        if 48 <= x <= 87:
            vals.append(x - 48)
        elif 96 <= x <= 119:
            vals.append(x - 56)
        else:
            return None
    nbits = 6 * len(vals)
    bits = []
    for v in vals:
        bits += [(v >> (5 - k)) & 1 for k in range(6)]
    for k in range(min(fill, nbits)):
        bits[nbits - 1 - k] = 0
    nbytes = (nbits + 7) // 8
    bits += [0] * (8 * nbytes - nbits)
    return bytes(sum(bits[8 * i + k] << (7 - k) for k in range(8)) for i in range(nbytes))


# ---------------------------------------------------------------- summaries of the library calls unarmor makes
def table(cfg):
    def s_from_elem(ex, st, callee, args, argv, f):
        v, n = argv
        if not (z3.is_bv(v) and z3.is_bv(n)):
            raise Unsupported("vec![v; n] with %r, %r" % (v, n))
        return ok1(st, ArrV(z3.K(BV64, v), n))

    def s_default(ex, st, callee, args, argv, f):
        return ok1(st, ArrV(z3.K(BV64, z3.BitVecVal(0, 8)), z3.BitVecVal(0, 64)))

    def s_resize(ex, st, callee, args, argv, f):
        """heapless 0.7 Vec::resize: Err(()) when new_len > capacity, else grow with value / truncate"""
        m = re.search(r"Vec::<u8, (\d+)>", callee)
        cap = int(m.group(1))
        r, newlen, value = argv
        cur = ex.deref_val(st, r)
        if not (isinstance(r, RefV) and isinstance(cur, ArrV) and z3.is_bv(newlen)):
            raise Unsupported("resize(%r, %r)" % (cur, newlen))
        too = z3.UGT(newlen, cap)
        outs = []
        s1, s2 = st.clone(), st.clone()
        s1.pc.append(too)
        outs.append(Outcome(s1, ret=EnumV("Result", 1, {1: [UNIT]})))
        s2.pc.append(z3.Not(too))
        k = z3.BitVec("k!resize", 64)
        grown = z3.Lambda([k], z3.If(z3.ULT(k, cur.length), z3.Select(cur.arr, k), value))
        ex.write_ref(s2, r, [], ArrV(grown, newlen))
        outs.append(Outcome(s2, ret=EnumV("Result", 0, {0: [UNIT]})))
        return outs

    def s_index_mut(ex, st, callee, args, argv, f):
        r, i = argv
        cur = ex.deref_val(st, r)
        if not (isinstance(r, RefV) and isinstance(cur, ArrV) and z3.is_bv(i)):
            raise Unsupported("index_mut(%r, %r)" % (cur, i))
        inb = z3.ULT(i, cur.length)
        s1, s2 = st.clone(), st.clone()
        s1.pc.append(inb)
        s2.pc.append(z3.Not(inb))
        return [Outcome(s1, ret=RefV(r.frame, r.local, list(r.proj) + [("aidx", i)])),
                Outcome(s2, panic=Panic("index out of bounds", callee))]

    def s_index(ex, st, callee, args, argv, f):
        r, i = argv
        cur = ex.deref_val(st, r)
        if not (isinstance(cur, ArrV) and z3.is_bv(i)):
            raise Unsupported("index(%r, %r)" % (cur, i))
        inb = z3.ULT(i, cur.length)
        s1, s2 = st.clone(), st.clone()
        s1.pc.append(inb)
        s2.pc.append(z3.Not(inb))
        return [Outcome(s1, ret=cur.at(i)), Outcome(s2, panic=Panic("index out of bounds", callee))]

    def s_deref_mut(ex, st, callee, args, argv, f):
        r = argv[0]
        if not (isinstance(r, RefV) and isinstance(ex.deref_val(st, r), ArrV)):
            raise Unsupported("deref_mut(%r)" % (r,))
        return ok1(st, r)

    def s_into_iter(ex, st, callee, args, argv, f):
        v = argv[0]
        if isinstance(v, ArrIter):
            return ok1(st, v)
        a = ex.deref_val(st, v)
        if not isinstance(a, ArrV):
            raise Unsupported("into_iter on %r" % (a,))
        return ok1(st, ArrIter(a, z3.BitVecVal(0, 64)))

    def s_enumerate(ex, st, callee, args, argv, f):
        v = argv[0]
        if not (isinstance(v, ArrIter) and z3.is_bv_value(z3.simplify(v.pos)) and z3.simplify(v.pos).as_long() == 0):
            raise Unsupported("enumerate on %r" % (v,))
        return ok1(st, ArrIter(v.e, v.pos, v.second, True))

    def s_step_by(ex, st, callee, args, argv, f):
        r, step = argv
        if not (isinstance(r, Agg) and len(r.fields) == 2 and z3.is_bv(step)):
            raise Unsupported("step_by on %r" % (r,))
        return ok1(st, Opaque("stepped-range", (r.fields[0], r.fields[1], step)))

    def s_zip(ex, st, callee, args, argv, f):
        a, b = argv
        if isinstance(b, Agg) and len(b.fields) == 2 and b.tyname == "Range":
            b = Opaque("stepped-range", (b.fields[0], b.fields[1], z3.BitVecVal(1, 64)))
        if not (isinstance(a, ArrIter) and a.second is None and isinstance(b, Opaque) and b.tag == "stepped-range"):
            raise Unsupported("zip of %r and %r" % (a, b))
        return ok1(st, ArrIter(a.e, a.pos, b.e, a.enumerated))

    def s_next(ex, st, callee, args, argv, f):
        r = argv[0]
        it = ex.deref_val(st, r)
        if not (isinstance(r, RefV) and isinstance(it, ArrIter)):
            raise Unsupported("Iterator::next on %r" % (it,))
        a = it.e
        more = z3.ULT(it.pos, a.length)
        item = a.at(it.pos)
        if it.second is not None:
            start, end, step = it.second
            # the stepped range yields start + step*k while that is below end (k-th element; no wrap-around below 2^32 elements)
            val = start + step * it.pos
            more = z3.And(more, z3.ULT(val, end))
            item = Agg([item, val])
        if it.enumerated:
            item = Agg([it.pos, item])
        ex.write_ref(st, r, [], it.clone(z3.If(more, it.pos + 1, it.pos)))
        d = z3.If(more, z3.BitVecVal(1, 64), z3.BitVecVal(0, 64))
        return ok1(st, EnumV("Option", d, {1: [item]}))

    def s_ref_sub(ex, st, callee, args, argv, f):
        a, b = ex.deref_val(st, argv[0]), ex.deref_val(st, argv[1])
        if not (z3.is_bv(a) and z3.is_bv(b)):
            raise Unsupported("sub(%r, %r)" % (a, b))
        ovf = z3.ULT(a, b)
        s1, s2 = st.clone(), st.clone()
        s1.pc.append(z3.Not(ovf))
        s2.pc.append(ovf)
        return [Outcome(s1, ret=a - b), Outcome(s2, panic=Panic("attempt to subtract with overflow", callee))]

    def s_min(ex, st, callee, args, argv, f):
        a, b = argv
        return ok1(st, z3.If(z3.ULT(b, a), b, a))

    def s_max(ex, st, callee, args, argv, f):
        a, b = argv
        return ok1(st, z3.If(z3.UGT(b, a), b, a))

    def s_range_contains(ex, st, callee, args, argv, f):
        r, x = ex.deref_val(st, argv[0]), ex.deref_val(st, argv[1])
        if not (isinstance(r, Agg) and len(r.fields) == 2 and z3.is_bv(x)):
            raise Unsupported("RangeInclusive::contains on %r" % (r,))
        lo, hi = r.fields[0], r.fields[1]
        return ok1(st, z3.And(z3.ULE(lo, x), z3.ULE(x, hi)))

    def s_range_new(ex, st, callee, args, argv, f):
        return ok1(st, Agg([argv[0], argv[1]], "RangeInclusive"))

    opaque = lambda tag: (lambda ex, st, c, a, v, f: ok1(st, Opaque(tag)))
    err = lambda ex, st, c, a, v, f: ok1(st, EnumV("Error", 0, {0: [Opaque("message")]}))
    return compile_table([
        (r"^(?:(?:std|alloc|lib::std)::(?:vec::)?)?from_elem::<u8>$", s_from_elem),
        (r"^<Vec<u8(?:, \d+)?> as Default>::default$|^Vec::<u8(?:, \d+)?>::new$", s_default),
        (r"^Vec::<u8, \d+>::resize$", s_resize),
        (r"^<Vec<u8(?:, \d+)?> as IndexMut<usize>>::index_mut$|^<\[u8\] as IndexMut<usize>>::index_mut$", s_index_mut),
        (r"^<Vec<u8(?:, \d+)?> as Index<usize>>::index$|^<\[u8\] as Index<usize>>::index$", s_index),
        (r"^<Vec<u8(?:, \d+)?> as DerefMut>::deref_mut$|^<Vec<u8(?:, \d+)?> as Deref>::deref$|^Vec::<u8(?:, \d+)?>::as_mut_slice$", s_deref_mut),
        (r"^<&\[u8\] as IntoIterator>::into_iter$|^core::slice::<impl \[u8\]>::iter$|^<(?:std::|core::)?slice::Iter<'_, u8> as IntoIterator>::into_iter$|"
         r"^<Enumerate<(?:std::|core::)?slice::Iter<'_, u8>> as IntoIterator>::into_iter$", s_into_iter),
        (r"^<(?:std::|core::)?slice::Iter<'_, u8> as Iterator>::enumerate$", s_enumerate),
        (r"^<Range<usize> as Iterator>::step_by$", s_step_by),
        (r"^<(?:std::|core::)?slice::Iter<'_, u8> as Iterator>::zip::<", s_zip),
        (r"^<Zip<.*> as IntoIterator>::into_iter$", s_into_iter),
        (r"^<Zip<.*> as Iterator>::next$", s_next),
        (r"^<(?:std::|core::)?slice::Iter<'_, u8> as Iterator>::next$|^<Enumerate<(?:std::|core::)?slice::Iter<'_, u8>> as Iterator>::next$", s_next),
        (r"^<&u8 as Sub<u8>>::sub$|^<u8 as Sub<&u8>>::sub$|^<&u8 as Sub<&u8>>::sub$", s_ref_sub),
        (r"^(?:(?:std|core)::cmp::)?min::<usize>$|^<usize as Ord>::min$", s_min),
        (r"^(?:(?:std|core)::cmp::)?max::<usize>$|^<usize as Ord>::max$", s_max),
        (r"^RangeInclusive::<u8>::new$", s_range_new),
        (r"^RangeInclusive::<u8>::contains::<u8>$", s_range_contains),
        (r"^core::fmt::rt::Argument::<'_>::new_\w+::<", opaque("fmt-arg")),
        (r"^(?:core::fmt::)?Arguments::<'_>::new", opaque("fmt-args")),
        (r"^(?:std::fmt::|alloc::fmt::)?format$", opaque("string")),
        (r"^must_use::<String>$|^(?:std|core)::hint::must_use::<", lambda ex, st, c, a, v, f: ok1(st, v[0])),
        (r"^<String as (?:std::convert::)?Into<err::Error>>::into$|^<err::Error as From<String>>::from$", err),
    ] + COMMON)


# ---------------------------------------------------------------- the three-part argument
class QLog:
    def __init__(self, res):
        self.res, self.items = res, []

    def add(self, name, r, dt):
        it = {"query": name, "result": r, "seconds": round(dt, 2)}
        self.items.append(it)
        log("  [M] %-56s %-8s %.2fs" % (name, r, dt))
        return it


def find_unarmor(funcs):
    cands = [fn for n, fn in funcs.items() if n.split("::")[-1] == "unarmor" and len(fn.args) == 2]
    if len(cands) != 1:
        raise Unsupported("messages::unarmor not found in the MIR dump")
    return cands[0]


def loop_header(ex, f):
    hs = []
    for n in sorted(f.raw):
        t = f.block(n)["term"]
        if t.kind == "call" and re.search(r"as Iterator>::next$", ex.norm_callee(t.func.strip())) and not f.block(n).get("cleanup"):
            hs.append(n)
    if len(hs) != 1:
        raise Unsupported("unarmor: expected exactly one loop over the input, found %d" % len(hs))
    return hs[0]


def check(res, cfg, timeout_s=300):
    """returns (established: bool, findings: [(what, model-or-None)])"""
    t0 = time.time()
    mir_path, _ = dump_mir(REPO, cfg, scratch())
    funcs = P.parse_mir(open(mir_path).read())
    enums, structs = P.scan_source_types(os.path.join(REPO, "src"))
    ex = Executor(funcs, enums, structs, table(cfg))
    ex.use_solver_pruning = False
    ex.unroll = 3
    f = find_unarmor(funcs)
    H = loop_header(ex, f)
    n, fill = z3.BitVec("n", 64), z3.BitVec("fill", 64)
    D = z3.Array("data", BV64, BV8)
    data = ArrV(D, n)
    dom = [z3.ULE(n, N_MAX), z3.ULE(fill, 5)]
    heapless = cfg == "none"
    nbytes = z3.LShR(6 * n + 7, 3)
    cap_excuse = z3.UGT(nbytes, 384) if heapless else z3.BoolVal(False)
    # Skolem constants
    c, b, p = z3.BitVec("c*", 64), z3.BitVec("b*", 64), z3.BitVec("p*", 64)
    # (only b < 6 restricts the Skolem constants: "c < n" and "p is a padding position" are premises inside the formulas, so that
    #  strings without characters or without padding bits are not excluded from any query)
    sk = [z3.ULT(b, 6)]
    ql = QLog(res)
    findings = []
    ok = True

    def ask(name, conj, on_sat=None):
        """conj = path condition + [negated goal] (the last element); a panic query is the path condition alone"""
        nonlocal ok
        s, r, dt = ms.solve_portfolio(dom + sk + conj, timeout_s=timeout_s)
        it = ql.add("%s[%s]" % (name, cfg), r, dt)
        res.items.append(it)
        res.queries += 1
        if r == "unsat" and not name.startswith("no-panic"):
            # vacuity witness: the path itself (without the negated goal) is reachable
            s0, r0, dt0 = ms.solve(dom + sk + conj[:-1], timeout_s=60)
            it["path_reachable"] = r0
            if r0 == "sat":
                res.nontrivial += 1
        elif r == "sat":
            res.nontrivial += 1
        if r != "unsat":
            ok = False
            m = s.model() if r == "sat" else None
            if r == "sat":
                # a short string makes the model replayable: ask again with a small length first
                for bound in (64, 4096):
                    s2, r2, dt2 = ms.solve(dom + sk + conj + [z3.ULE(n, bound)], timeout_s=timeout_s)
                    if r2 == "sat":
                        m = s2.model()
                        break
            findings.append((name, m, r))
        return r

    st0 = State()
    # ---- entry -> loop header
    outs = ex.run(f, [data, fill], st0, stop_at=(H,))
    heads = [o for o in outs if o.stop == H]
    for o in outs:
        if o.stop == H:
            continue
        if o.panic is not None:
            ask("no-panic-before-the-loop", list(o.st.pc))
        else:
            rcheck_exit(ask, "exit-before-the-loop", o, n, fill, D, nbytes, c, b, p, cap_excuse, None)
    if not heads:
        raise Unsupported("unarmor: no path reaches the loop header")
    carried_info = []

    def process_head(hs, tag):
        top = hs.frames[-1]
        # ---- loop-carried variables: difference of one iteration
        probe = ex.run(f, None, hs, start_bb=H, stop_at=(H,), resume=True)
        back = [o for o in probe if o.stop == H]
        if not back:
            raise Unsupported("unarmor: no path returns to the loop header")
        changed = set()
        for o in back:
            for loc, v in o.st.frames[-1].items():
                if loc == "__subst":
                    continue
                old = top.get(loc, UNINIT)
                if not (v is old or (z3.is_expr(v) and z3.is_expr(old) and v.eq(old))):
                    changed.add(loc)
        i = z3.BitVec("i", 64)
        inv_pre, havoc = [z3.ULE(i, n)], {}
        arr_loc, iter_loc, templates = None, None, {}
        for loc in sorted(changed):
            old = top.get(loc, UNINIT)
            if isinstance(old, ArrIter):
                havoc[loc] = old.clone(i)
                iter_loc = loc
                if not (z3.is_bv_value(z3.simplify(old.pos)) and z3.simplify(old.pos).as_long() == 0):
                    raise Unsupported("iterator does not start at 0")
            elif isinstance(old, ArrV):
                if arr_loc is not None:
                    raise Unsupported("more than one buffer changes in the loop")
                arr_loc = loc
                havoc[loc] = ArrV(z3.Array("out!h", BV64, BV8), old.length)
            elif z3.is_bv(old):
                # linear template: same constant difference on every path back to the header
                ds = set()
                for o in back:
                    nv = o.st.frames[-1].get(loc)
                    if not z3.is_bv(nv):
                        raise Unsupported("loop-carried local _%s is not scalar after an iteration" % loc)
                    d = z3.simplify(nv - old)
                    if not z3.is_bv_value(d):
                        ds.add(None)
                    else:
                        ds.add(d.as_long())
                if len(ds) == 1 and None not in ds:
                    d = ds.pop()
                    templates[loc] = (old, d)
                    w = old.size()
                    iw = i if w == 64 else z3.Extract(w - 1, 0, i)
                    havoc[loc] = z3.simplify(old + iw * z3.BitVecVal(d, w))
                else:
                    havoc[loc] = None      # iteration temporary (assigned before it is read): uninitialised at the header
            else:
                havoc[loc] = None
        if arr_loc is None or iter_loc is None:
            raise Unsupported("unarmor: loop does not carry an iterator over the input and an output buffer")

        def inv_out(arr, ii):
            j = 6 * c + b
            want = z3.If(z3.ULT(c, ii), bit_of(val6(z3.Select(D, c)), z3.BitVecVal(5, 64) - b), z3.BoolVal(False))
            is_pad = z3.And(z3.UGE(p, 6 * n), z3.ULT(p, 8 * nbytes))
            return z3.And(z3.Implies(z3.ULT(c, n), stream_bit(arr, j) == want), z3.Implies(is_pad, z3.Not(stream_bit(arr, p))),
                          z3.Implies(z3.ULT(c, ii), alpha(z3.Select(D, c))))

        # ---- base
        base_arr = top[arr_loc]
        ask("loop-invariant-holds-on-entry", list(hs.pc) + [z3.Not(inv_out(base_arr.arr, z3.BitVecVal(0, 64)))])
        # ---- step and exit from an arbitrary state satisfying Inv
        hv = hs.clone()
        for loc, v in havoc.items():
            if v is None:
                hv.frames[-1].pop(loc, None)
            else:
                hv.frames[-1][loc] = v
        out_h = havoc[arr_loc]
        hv.pc = list(hs.pc) + inv_pre + [inv_out(out_h.arr, i)]
        base_pc = len(hv.pc)
        outs = ex.run(f, None, hv, start_bb=H, stop_at=(H,), resume=True)
        nb = 0
        for o in outs:
            pc = list(o.st.pc)
            if o.panic is not None:
                ask("no-panic-in-or-after-the-loop(%s)" % re.sub(r"[^A-Za-z]+", "-", o.panic.msg)[:30], pc)
                continue
            if o.stop == H:
                nb += 1
                fr = o.st.frames[-1]
                it2 = fr.get(iter_loc)
                if not isinstance(it2, ArrIter):
                    raise Unsupported("iterator lost in the loop body")
                conds = [it2.pos == i + 1]
                for loc, (v0, d) in templates.items():
                    w = v0.size()
                    iw = (i + 1) if w == 64 else z3.Extract(w - 1, 0, i + 1)
                    nv = fr.get(loc)
                    if not z3.is_bv(nv):
                        raise Unsupported("template local lost")
                    conds.append(nv == v0 + iw * z3.BitVecVal(d, w))
                a2 = fr.get(arr_loc)
                if not isinstance(a2, ArrV):
                    raise Unsupported("buffer lost in the loop body")
                conds += [a2.length == out_h.length, inv_out(a2.arr, i + 1)]
                # the iteration ran with i < n (otherwise next() returned None)
                ask("loop-invariant-preserved-by-one-iteration#%d" % nb, pc + [z3.Not(z3.And(*conds))])
                continue
            # the function returned: from inside the loop (i < n: error at a byte outside the alphabet) or after it (i = n)
            rcheck_exit(ask, "exit-in-or-after-the-loop", o, n, fill, D, nbytes, c, b, p, cap_excuse, i)

        carried_info.append({"iterator": "_%s" % iter_loc, "buffer": "_%s" % arr_loc,
                             "linear_scalars": {"_%s" % k: "start %s, step %d" % (v0, d) for k, (v0, d) in templates.items()}})
        return len(outs)

    ntrans = 0
    for hi, h in enumerate(heads):
        # (a head whose path condition is unsatisfiable makes its queries trivially unsat: harmless)
        ntrans += process_head(h.st, "#%d" % hi if len(heads) > 1 else "")
    res.states += ex.blocks_visited
    res.transitions += ntrans
    info = {"cfg": cfg, "function": f.name, "loop_header": "bb%d" % H, "paths_to_the_loop": len(heads), "loop_carried": carried_info,
            "length_bound": "n <= 2^32 (no unrolling: base / step / exit of the loop invariant)", "queries": ql.items,
            "callees_summarised": sorted(ex.calls_summarised), "encode_and_solve_s": round(time.time() - t0, 2), "established": ok}
    res.extra.setdefault("unarmor_any_length", []).append(info)
    return ok, findings, (n, fill, D, z3.BitVec("i", 64))


def rcheck_exit(ask, name, o, n, fill, D, nbytes, c, b, p, cap_excuse, i):
    r = o.ret
    pc = list(o.st.pc)
    if not (isinstance(r, EnumV) and r.ety == "Result"):
        raise Unsupported("unarmor returned %r" % (r,))
    cases = [0, 1] if not isinstance(r.disc, int) else [r.disc]
    for k in cases:
        extra = [] if isinstance(r.disc, int) else [r.disc == k]
        if k == 1:
            # an error: justified by the byte the loop is looking at, or (no-allocator build) by the capacity
            why = cap_excuse
            if i is not None:
                why = z3.Or(why, z3.And(z3.ULT(i, n), z3.Not(alpha(z3.Select(D, i)))))
            ask(name + ":error-only-for-a-byte-outside-the-alphabet", pc + extra + [z3.Not(why)])
        else:
            out = r.payloads[0][0]
            if not isinstance(out, ArrV):
                raise Unsupported("unarmor Ok payload %r" % (out,))
            j = 6 * c + b
            keep = z3.ULT(j, 6 * n - fill)
            want = z3.If(keep, bit_of(val6(z3.Select(D, c)), z3.BitVecVal(5, 64) - b), z3.BoolVal(False))
            is_pad = z3.And(z3.UGE(p, 6 * n), z3.ULT(p, 8 * nbytes))
            good = z3.And(out.length == nbytes, z3.Implies(z3.ULT(c, n), z3.And(stream_bit(out.arr, j) == want, alpha(z3.Select(D, c)))),
                          z3.Implies(is_pad, z3.Not(stream_bit(out.arr, p))))
            done = [i == n] if i is not None else []
            # (an Ok from inside the loop with i < n would leave characters unread: good then fails for c >= i)
            ask(name + ":ok-value-is-the-specified-bytes", pc + extra + [z3.Not(good)])


# ---------------------------------------------------------------- concrete confirmation of a satisfiable query
def confirm(res, cfg, findings, syms):
    """build strings from the models (and lengths around them), run the real unarmor natively, compare with the specification.
    Returns the list of confirmed disagreements [(fill, data, got, want)]"""
    n, fill, D, i = syms
    cands = []
    for name, m, r in findings:
        if m is None:
            continue
        try:
            nn = m.eval(n, model_completion=True).as_long()
            ff = m.eval(fill, model_completion=True).as_long()
        except Exception:
            continue
        lens = sorted({x for x in (nn, nn - 1, nn + 1, 385, 512, 513, 1000) if 0 <= x <= 20000})
        for L in lens:
            body = bytearray(b"0" * L)
            if L == nn and L <= 20000:
                # the model's bytes where it constrains them (first 256 positions and around its index variables);
                # elsewhere an alphabet character, so that one position decides the outcome
                idxs = set(range(min(L, 256)))
                for sym in (i, z3.BitVec("c*", 64)):
                    if sym is not None:
                        try:
                            v = m.eval(sym, model_completion=True).as_long()
                            idxs |= {x for x in (v - 1, v, v + 1) if 0 <= x < L}
                        except Exception:
                            pass
                for k in sorted(idxs):
                    body[k] = m.eval(z3.Select(D, z3.BitVecVal(k, 64)), model_completion=True).as_long()
            cands.append((ff % 6, bytes(body), name))
            cands.append((ff % 6, bytes((b"w0W`" * (L // 4 + 1))[:L]), name))
            for f2 in (0, 5):
                cands.append((f2, bytes((b"wwww" * (L // 4 + 1))[:L]), name))
    seen, confirmed = set(), []
    script, keys = [], []
    for ff, body, name in cands:
        if (ff, body) in seen:
            continue
        seen.add((ff, body))
        script.append(("U", ff, body))
        keys.append((ff, body, name))
    if not script:
        return confirmed
    outs, path = ms.run_driver(cfg, script)
    res.replayed += len(script)
    for (ff, body, name), line in zip(keys, outs):
        want = py_unarmor(body, ff)
        parts = line.split()
        if parts[0] == "O":
            got = b"" if parts[1] == "-" else bytes.fromhex(parts[1])
        elif parts[0] == "E":
            got = None
        else:
            got = "panic: " + " ".join(parts[1:])
        if cfg == "none" and want is not None and len(want) > 384 and got is None:
            continue        # capacity of the no-allocator build (C18's subject)
        if got != want:
            confirmed.append({"query": name, "fill": ff, "length": len(body), "data": body, "got": got if not isinstance(got, bytes) else got.hex(),
                              "want": None if want is None else want.hex()})
    return confirmed
