"""C20 (engine M): the command-line tool, from the MIR of src/bin/aisparser.rs.
main, its closures and parse_nmea_line are executed symbolically; the environment (stdin iterator plumbing, print
macros, str::from_utf8, AisParser::parse) is a nondeterministic stub constrained by its documented contract."""
import os, re, subprocess, time
import z3

import kflow, kanirun
from common import REPO, log, scratch
from mir import parse as P
from mir.exec import Executor, State, Agg, EnumV, Opaque, Outcome, SeqV, RefV, ClosureV, UNIT, Panic, BYTES
from mir import textlayer as T
from mir.parse import Unsupported
from mir.relation import dump_mir
from mir.summaries import COMMON, compile_table, ok1
from ms import solve, nmea_line

VALID = b"!AIVDM,1,1,,B,E>kb9O9aS@7PUh10dh19@;0Tah2cWrfP:l?M`00003vP100,0*01"
FIRST_OF_TWO = b"!AIVDM,2,1,1,B,53`soB8000010KSOW<0P4eDp4l6000000000000U0p<24t@P05H3S833CDP00000,0*78"


def concrete_line(kind, utf8):
    """a real line with the requested parser outcome and UTF-8-ness"""
    if kind == "C":
        return VALID if utf8 else b"\\\xff\xfe\\" + VALID
    if kind == "I":
        return FIRST_OF_TWO if utf8 else b"\\\xff\\" + FIRST_OF_TWO
    return b"garbage, not a sentence" if utf8 else b"\xff\xfegarbage"


def is_utf8(b):
    try:
        b.decode("utf-8")
        return True
    except UnicodeDecodeError:
        return False


def build_binary():
    td = os.path.join(kanirun.CACHE, "bin-aisparser")
    rc, out, dt, to = kanirun._run(["cargo", "build", "--offline", "--bin", "aisparser", "--target-dir", td], 900, cwd=REPO)
    exe = os.path.join(td, "debug", "aisparser")
    if rc != 0 or not os.path.exists(exe):
        raise RuntimeError("building the aisparser binary failed: " + out[-1500:])
    return exe


def run_binary(exe, lines):
    p = subprocess.run([exe], input=b"\n".join(lines) + b"\n", stdout=subprocess.PIPE, stderr=subprocess.PIPE, timeout=60,
                       env=dict(os.environ, RUST_BACKTRACE="0"))
    return p.returncode, p.stdout.split(b"\n")[:-1] if p.stdout else [], [l for l in p.stderr.split(b"\n") if l]


def run(res, nlines=2):
    """two encodings of the input stream: 'abstract' - each line an opaque byte string with any parser outcome and any
    UTF-8-ness; 'short' - each line 0..3 fully symbolic bytes (such a line can only be rejected by the parser), so that code
    that looks at the line itself (trimming, indexing, loops) is executed on real contents"""
    ok = True
    for mode in ("abstract", "short"):
        ok = _run(res, nlines, mode) and ok
    return ok


def _run(res, nlines, mode):
    prop = res.prop
    t0 = time.time()
    try:
        mir_path, dump_s = dump_mir(REPO, "std", scratch(), target="aisparser")
        funcs = P.parse_mir(open(mir_path).read())
        enums, structs = P.scan_source_types(os.path.join(REPO, "src"))
        kinds = [z3.Int("kind_%d" % i) for i in range(nlines)]        # 0 Complete 1 Incomplete 2 Err
        utf8 = [z3.Bool("utf8_%d" % i) for i in range(nlines)]
        # each line: up to LINE_N symbolic bytes and a symbolic length (slice operations, indexing and loops over the line
        # are executed; loops are unrolled LINE_N + 3 times with an unwinding assertion)
        LINE_N = 3
        tl = [T.Line(LINE_N, "_b%d" % i) for i in range(nlines)]
        if mode == "short":
            lines = [T.SliceV(tl[i], T.pos(0), tl[i].n) for i in range(nlines)]
        else:
            lines = [SeqV(z3.Const("line_%d" % i, BYTES)) for i in range(nlines)]
        cur = {"i": 0}

        def line_index(ex, st, v):
            """which input line a slice belongs to (the whole line or a part of it, e.g. after trimming)"""
            v = ex.deref_val(st, v)
            for i, l in enumerate(tl):
                if isinstance(v, T.SliceV) and v.line is l:
                    return i
            for i, l in enumerate(lines):
                if isinstance(v, SeqV) and isinstance(l, SeqV) and v.e.eq(l.e):
                    return i
            raise Unsupported("from_utf8 / parse called on something that is not (part of) the current line: %s" % type(v).__name__)

        def s_parse(ex, st, callee, args, argv, f):
            i = line_index(ex, st, argv[1])
            outs = []
            for k in (0, 1, 2):
                s2 = st.clone()
                s2.pc.append(kinds[i] == k)
                s2.ghost = dict(s2.ghost)
                if k == 2:
                    outs.append(Outcome(s2, ret=EnumV("Result", 1, {1: [EnumV("Error", 0, {0: [Opaque("error")]})]})))
                else:
                    sent = Agg([Opaque("sentence-field-%d" % j) for j in range(10)], "AisSentence")
                    outs.append(Outcome(s2, ret=EnumV("Result", 0, {0: [EnumV("AisFragments", k, {k: [sent]})]})))
            return outs

        def s_from_utf8(ex, st, callee, args, argv, f):
            i = line_index(ex, st, argv[0])
            s1, s2 = st.clone(), st.clone()
            s1.pc.append(utf8[i])
            s2.pc.append(z3.Not(utf8[i]))
            return [Outcome(s1, ret=EnumV("Result", 0, {0: [Opaque("str")]})), Outcome(s2, ret=EnumV("Result", 1, {1: [Opaque("utf8error")]}))]

        def s_unwrap(ex, st, callee, args, argv, f):
            v = argv[0]
            if not (isinstance(v, EnumV) and v.ety == "Result" and isinstance(v.disc, int)):
                raise Unsupported("unwrap on %r" % (v,))
            if v.disc == 0:
                return ok1(st, v.payloads[0][0])
            return [Outcome(st, panic=Panic("called `Result::unwrap()` on an `Err` value", "src/bin/aisparser.rs"))]

        def emit(stream):
            def fn(ex, st, callee, args, argv, f):
                st.ghost = dict(st.ghost)
                st.ghost["events"] = st.ghost.get("events", ()) + ((stream, st.ghost.get("line", -1)),)
                return ok1(st, UNIT)
            return fn

        def s_unwrap_or_else(ex, st, callee, args, argv, f):
            v, clo = argv
            if not (isinstance(v, EnumV) and v.ety == "Result" and isinstance(v.disc, int)):
                raise Unsupported("unwrap_or_else on %r" % (v,))
            if v.disc == 0:
                return ok1(st, v.payloads[0][0])
            return ex.call_closure(st, clo, [v.payloads[1][0]])

        def s_lossy(ex, st, callee, args, argv, f):
            return ok1(st, Opaque("cow-str"))

        def s_for_each(ex, st, callee, args, argv, f):
            # iterator plumbing (trusted): Split yields Ok(line) per line in input order; map applies closure#0; for_each applies
            # the per-line closure to each in order.  nlines symbolic lines.
            it, body = argv
            if not (isinstance(it, Opaque) and it.tag == "map" and isinstance(body, ClosureV)):
                raise Unsupported("for_each on %r with %r" % (it, body))
            mapper = it.e
            states = [st]
            for i in range(nlines):
                nxt = []
                for s0 in states:
                    s0 = s0.clone()
                    s0.ghost = dict(s0.ghost)
                    s0.ghost["line"] = i
                    for o in ex.call_closure(s0, mapper, [EnumV("Result", 0, {0: [lines[i]]})]):
                        if o.panic is not None:
                            nxt.append(o)
                            continue
                        for o2 in ex.call_closure(o.st, body, [o.ret]):
                            nxt.append(o2)
                done = [o for o in nxt if o.panic is not None]
                states = [o.st for o in nxt if o.panic is None]
                st.ghost.setdefault("_panics", [])
                for o in done:
                    states_panics.append(o)
            return [Outcome(s, ret=UNIT) for s in states] + []

        def s_split_into_iter(ex, st, callee, args, argv, f):
            it = argv[0]
            if not (isinstance(it, Opaque) and it.tag == "split"):
                raise Unsupported("into_iter on %r" % (it,))
            return ok1(st, Opaque("split-iter", 0))

        def s_split_next(ex, st, callee, args, argv, f):
            # iterator plumbing (trusted): Split yields Some(Ok(line)) per line in input order, then None
            r = argv[0]
            it = ex.deref_val(st, r)
            if not (isinstance(it, Opaque) and it.tag in ("split-iter", "split")):
                raise Unsupported("Iterator::next on %r" % (it,))
            i = it.e if it.tag == "split-iter" else 0
            if i >= nlines:
                return ok1(st, EnumV("Option", 0, {}))
            ex.write_ref(st, r, [], Opaque("split-iter", i + 1))
            st.ghost = dict(st.ghost)
            st.ghost["line"] = i
            return ok1(st, EnumV("Option", 1, {1: [EnumV("Result", 0, {0: [lines[i]]})]}))

        states_panics = []
        opaque = lambda tag: (lambda ex, st, c, a, v, f: ok1(st, Opaque(tag)))
        table = compile_table([
            (r"^AisParser::parse$", s_parse),
            (r"^(?:core::str::|std::str::)?from_utf8$", s_from_utf8),
            (r"^String::from_utf8_lossy$|^(?:std::string::)?String::from_utf8_lossy$", s_lossy),
            (r"^Result::<.*>::unwrap$|^Result::<.*>::expect$", s_unwrap),
            (r"^Result::<.*>::unwrap_or_else::<", s_unwrap_or_else),
            (r"^core::fmt::rt::Argument::<'_>::new_\w+::<", opaque("fmt-arg")),
            (r"^(?:core::fmt::)?Arguments::<'_>::new", opaque("fmt-args")),
            (r"^std::io::_print$", emit("stdout")),
            (r"^std::io::_eprint$", emit("stderr")),
            (r"^AisParser::new$", opaque("parser")),
            (r"^stdin$", opaque("stdin")),
            (r"^Stdin::lock$", opaque("lock")),
            (r"as BufRead>::split$", opaque("split")),
            (r"as Iterator>::map::<", lambda ex, st, c, a, v, f: ok1(st, Opaque("map", v[1]))),
            (r"as Iterator>::for_each::<", s_for_each),
            (r"^<(?:std::io::)?Split<.*> as IntoIterator>::into_iter$", s_split_into_iter),
            (r"^<(?:std::io::)?Split<.*> as Iterator>::next$", s_split_next),
            (r"^<Vec<u8> as Deref>::deref$", lambda ex, st, c, a, v, f: ok1(st, ex.deref_val(st, v[0]))),
            (r"^<(?:std::borrow::)?Cow<'_, str> as Deref>::deref$", lambda ex, st, c, a, v, f: ok1(st, Opaque("str"))),
        ] + T.SLICE_OPS + COMMON)
        ex = Executor(funcs, enums, structs, table)
        ex.unroll = max(LINE_N + 3, nlines + 2)
        fmain = funcs.get("main")
        if fmain is None:
            raise Unsupported("main not found in the binary's MIR")
        st0 = State()
        for l in tl:
            st0.pc.append(l.wf)
        outs = ex.run(fmain, [], st0)
        outs += states_panics
    except Unsupported as e:
        res.inconclusive.append("engine M could not encode the aisparser binary (%s lines): %s" % (mode, str(e)[:300]))
        return False
    enc_s = time.time() - t0
    # lines of <= LINE_N bytes cannot be valid sentences: the parser rejects them (kind 2) - unless they are not the whole story:
    # kinds stay unconstrained for longer lines, which the symbolic content does not model
    dom = ([z3.And(k >= 0, k <= 2) for k in kinds] if mode == "abstract" else [k == 2 for k in kinds]) + [l.wf for l in tl]
    # query 1: a panic edge is reachable
    panics = [o for o in outs if o.panic is not None]
    normal = [o for o in outs if o.panic is None]
    res.states += ex.blocks_visited
    res.transitions += len(outs)
    res.extra.setdefault("binary_encoding", {})[mode] = {"functions_encoded_from_mir": sorted(ex.calls_inlined | {"main"}), "callees_summarised": sorted(ex.calls_summarised),
                                    "paths": len(outs), "panic_paths": len(panics), "lines": nlines, "encode_s": round(enc_s, 2), "mir_lines": sum(1 for _ in open(mir_path))}
    exe = build_binary()
    ok = True

    def replay(model, what, qname):
        nonlocal ok
        ls, want_out, want_err = [], 0, 0
        for i in range(nlines):
            k = model.eval(kinds[i]).as_long() if model is not None else 2
            u = z3.is_true(model.eval(utf8[i])) if model is not None else False
            ks = "CIE"[k]
            if mode == "short":
                n = model.eval(tl[i].n).as_long()
                content = bytes(model.eval(tl[i].bytes[j]).as_long() for j in range(min(n, LINE_N)))
                if b"\n" in content:
                    content = content.replace(b"\n", b" ")
                ls.append(content)
            else:
                ls.append(concrete_line(ks, u))
            want_out += ks == "C"
            want_err += ks == "E"
        # a well-behaved line before and after: nothing may stop the tool or affect other lines
        stream = [VALID] + ls + [VALID]
        rc, so, se = run_binary(exe, stream)
        res.replayed += 1
        bad = rc != 0 or len(so) != want_out + 2 or len(se) != want_err
        rec = {"property": prop, "engine": "M", "query": qname, "stdin_lines_hex": [l.hex() for l in stream], "exit_code": rc,
               "stdout_records": len(so), "stderr_records": len(se), "expected_stdout_records": want_out + 2, "expected_stderr_records": want_err,
               "stderr_tail": se[-1].decode("latin1")[:200] if se else "", "what": what}
        if bad:
            path = kflow.write_replay(prop, rec)
            res.violations.append({"what": "%s: exit code %s, %d/%d stdout records, %d/%d stderr records for %d lines (%s)" % (
                qname, rc, len(so), want_out + 2, len(se), want_err, len(stream), what), "replay": path})
            print("VIOLATION property=%s replay=%s" % (prop, path), flush=True)
        else:
            res.norepro.append("%s: the model's stream was handled correctly by the real binary (%s)" % (qname, rec))
        ok = False

    t1 = time.time()
    if panics:
        s, r, dt = solve(dom + [z3.Or(*[z3.And(*o.st.pc) if o.st.pc else z3.BoolVal(True) for o in panics])], timeout_s=60)
    else:
        r, dt, s = "unsat", 0.0, None
    it = {"engine": "M", "query": "tool-panic-unreachable[%s lines]" % mode, "result": r, "seconds": round(dt, 3), "panic_paths": len(panics)}
    log("  [M] %-52s %-8s %.2fs" % (it["query"], r, dt))
    res.items.append(it)
    res.queries += 1
    if r == "sat":
        res.nontrivial += 1
        m = s.model()
        msg = next((o.panic.msg for o in panics if all(z3.is_true(m.eval(c)) for c in o.st.pc)), "panic")
        replay(m, "panic path reachable: %s" % msg, it["query"])
    elif r == "unsat":
        res.nontrivial += 1
        res.samples.append({"query": it["query"], "meaning": "for every line content (UTF-8 or not) and every parser outcome, no unwrap/expect/assert in main, its closures and parse_nmea_line can fail"})
    else:
        res.inconclusive.append(it["query"] + ": " + r)
        ok = False
    # query 2: records: stdout iff Complete, stderr iff Err, nothing for Incomplete, in input order
    bad = []
    for o in normal:
        ev = o.st.ghost.get("events", ())
        pc = z3.And(*o.st.pc) if o.st.pc else z3.BoolVal(True)
        conds = []
        for i in range(nlines):
            mine = [e for e in ev if e[1] == i]
            conds.append(z3.If(kinds[i] == 0, z3.BoolVal(mine == [("stdout", i)]), z3.If(kinds[i] == 2, z3.BoolVal(mine == [("stderr", i)]), z3.BoolVal(mine == []))))
        ordered = list(ev) == sorted(ev, key=lambda e: e[1])
        bad.append(z3.And(pc, z3.Not(z3.And(z3.BoolVal(ordered), *conds))))
    # every combination of outcomes must be covered by a non-panicking path or a panic path (no silently lost paths)
    cover = z3.Or(*[z3.And(*o.st.pc) if o.st.pc else z3.BoolVal(True) for o in outs]) if outs else z3.BoolVal(False)
    s, r, dt = solve(dom + [z3.Or(z3.Or(*bad) if bad else z3.BoolVal(False), z3.Not(cover))], timeout_s=60)
    it = {"engine": "M", "query": "tool-records-match-outcomes[%s lines]" % mode, "result": r, "seconds": round(dt, 3), "paths": len(normal)}
    log("  [M] %-52s %-8s %.2fs" % (it["query"], r, dt))
    res.items.append(it)
    res.queries += 1
    if r == "sat":
        res.nontrivial += 1
        replay(s.model(), "records do not match the per-line outcomes", it["query"])
    elif r == "unsat":
        res.nontrivial += 1
        res.samples.append({"query": it["query"], "meaning": "%d lines: exactly one stdout record per Complete line, one stderr record per rejected line, none for Incomplete, in input order" % nlines})
    else:
        res.inconclusive.append(it["query"] + ": " + r)
        ok = False
    # concrete end-to-end smoke run of the real binary on a mixed stream (reachability witness of the replay machinery)
    stream = [VALID, FIRST_OF_TWO, b"", b"\r", b"garbage", b"!AIVDM,2,2,1,B,0000000,2*26", VALID + b"\r"]
    rc, so, se = run_binary(exe, stream)
    res.replayed += 1
    res.extra["binary_smoke_run"] = {"lines": len(stream), "exit_code": rc, "stdout_records": len(so), "stderr_records": len(se)}
    return ok
