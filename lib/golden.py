"""Cross-validation of the oracle tables on the repository's own golden vectors: the harness bodies (the very oracle code
the solver checks) are run natively on the unarmored payloads of the vectors in the crate's unit tests.  A harness whose
oracle contradicts a vector that the pinned tests assert would fail here - that guards against transcription errors in
*my* tables (a disagreement makes the check inconclusive; it is never reported as a violation of the crate)."""
import os, re, subprocess
import kanirun
from common import REPO, scratch, log

# struct under test -> (harness name stem, payload bytes the harness draws)
HARNESS_OF = {"PositionReport": ("t01", 21), "BaseStationReport": ("t04", 21), "UtcDateResponse": ("t11", 21), "StaticAndVoyageRelatedData": ("t05", 53),
              "SARPositionReport": ("t09", 21), "UtcDateInquiry": ("t10", 9), "StandardClassBPositionReport": ("t18", 21),
              "ExtendedClassBPositionReport": ("t19", 39), "AidToNavigationReport": ("t21", 34), "LongRangeAisBroadcastMessage": ("t27", 12),
              "AssignmentModeCommand": ("t16_96", 12), "StaticDataReport": ("t24", 21)}


def unarmor(payload, fill):
    bits = []
    for ch in payload.encode("latin1"):
        v = ch - 48 if 48 <= ch <= 87 else ch - 56
        bits += [(v >> (5 - i)) & 1 for i in range(6)]
    if fill:
        bits = bits[:len(bits) - fill] + [0] * fill
    while len(bits) % 8:
        bits.append(0)
    return bytes(int("".join(map(str, bits[i:i + 8])), 2) for i in range(0, len(bits), 8))


def vectors():
    out = {}
    d = os.path.join(REPO, "src", "messages")
    for fn in sorted(os.listdir(d)):
        if not fn.endswith(".rs"):
            continue
        t = open(os.path.join(d, fn)).read()
        m = re.search(r"impl<'a> AisMessageType<'a> for (\w+)", t)
        if not m:
            continue
        for mm in re.finditer(r'let bytestream = b"([^"]+)";\s*let bitstream = crate::messages::unarmor\(bytestream, (\d)\)', t):
            out.setdefault(m.group(1), []).append(unarmor(mm.group(1), int(mm.group(2))))
    return out


def cross_check(res, harness_names, cfg="std"):
    """run every harness in harness_names that belongs to a struct with golden vectors of the right length"""
    exe = kanirun.build_native(cfg, False)
    if not exe:
        res.inconclusive.append("golden-vector cross-check: native replay binary could not be built")
        return
    vs = vectors()
    ran = bad = 0
    details = []
    from common import load_known_findings
    known = {e.get("harness") for e in load_known_findings().get("known", []) if e.get("harness")}
    harness_names = [h for h in harness_names if h not in known]    # a known finding contradicts its pinned test by definition
    for struct, (stem, n) in HARNESS_OF.items():
        for h in harness_names:
            if not (h.endswith("_" + stem) or ("_" + stem + "_") in h or h.endswith("_" + stem + "a") or h.endswith("_" + stem + "b")):
                continue
            for data in vs.get(struct, []):
                if len(data) < n:
                    continue
                vf = os.path.join(scratch(), "golden-%s-%d.txt" % (h, ran))
                with open(vf, "w") as f:
                    for b in data[:n]:
                        f.write("%d\n" % b)
                p = subprocess.run([exe, h, vf], stdout=subprocess.PIPE, stderr=subprocess.STDOUT, text=True, env=dict(os.environ, RUST_BACKTRACE="0"))
                ran += 1
                if p.returncode == 10:
                    bad += 1
                    details.append("%s on a golden %s vector: %s" % (h, struct, p.stdout.strip()[:200]))
    res.extra["golden_vector_cross_check"] = {"harness_runs": ran, "disagreements": bad, "details": details}
    res.replayed += ran
    if bad:
        res.inconclusive.append("oracle table disagrees with the repository's golden vectors (%d): %s" % (bad, details[:2]))
    log("  golden-vector cross-check: %d native harness runs, %d disagreements" % (ran, bad))
