"""Layer T queries (engine M): C02 (checksum gate), C07 (fields), C08 (accepted shapes), C19 (sentence-level type),
C01-T (no panic edge) over `parse_nmea_sentence` + `check_checksum` executed from MIR on a fully symbolic line."""
import os, re, time
import z3

import kflow
from common import REPO, log, scratch
from mir import parse as P
from mir import textlayer as T
from mir.exec import Executor, State, Agg, EnumV, RefV, Opaque, Outcome, FnV, UNIT, Panic
from mir.parse import Unsupported
from mir.relation import dump_mir
from mir.summaries import ok1
from ms import solve, run_driver, parse_out, nmea_line

TALKERS = ["AB", "AD", "AI", "AN", "AR", "AS", "AT", "AX", "BS", "SA"]

A_ACCEPT, A_CHECKSUM, A_REJECT, A_PANIC = 0, 1, 2, 3


class TRel:
    pass


def build(cfg, N, mir_path=None, line=None):
    t0 = time.time()
    if mir_path is None:
        mir_path, _ = dump_mir(REPO, cfg, scratch())
    funcs = P.parse_mir(open(mir_path).read())
    enums, structs = P.scan_source_types(os.path.join(REPO, "src"))
    enums[T.NOM_ERR] = ["Incomplete", "Error", "Failure"]
    enums["Err"] = enums[T.NOM_ERR]
    line = line or T.Line(N)

    def s_message_type(ex, st, callee, args, argv, f):
        v = ex.deref_val(st, argv[0])
        if not isinstance(v, T.SliceV):
            raise Unsupported("message_type on %r" % (v,))
        # Kani leaf c09_message_type_leaf: Ok((_, d[0] >> 2)) for non-empty input, Err for empty
        return T.fork(ex, st, z3.UGT(v.e, v.s),
                      lambda s1: [Outcome(s1, ret=T.r_ok(T.SliceV(v.line, v.s + 1, v.e), z3.LShR(v.at(0), 2)))],
                      lambda s2: [Outcome(s2, ret=T.r_err(1, "Eof"))])

    def s_into_enum(ex, st, callee, args, argv, f):
        m = re.search(r"Into<(\w+)>>::into$", callee) or re.search(r"^<(\w+) as From<&\[u8\]>>::from$", callee)
        ty = m.group(1)
        cands = [fn for n, fn in funcs.items() if n.endswith("::from") and enum_last(fn.ret) == ty and fn.args and fn.args[0][1].replace(" ", "") == "&[u8]"]
        if len(cands) != 1:
            raise Unsupported("From<&[u8]> for %s not found" % ty)
        outs = ex.run(cands[0], argv, st)
        ex.calls_inlined.add(cands[0].name)
        return merge_pure(st, outs, ty)

    def merge_pure(st, outs, ety):
        if not outs or any(o.panic is not None for o in outs):
            return outs
        base = len(st.pc)
        d = None
        for o in reversed(outs):
            r = o.ret
            if not (isinstance(r, EnumV) and isinstance(r.disc, int) and not any(r.payloads.values())):
                return outs
            cond = z3.And(*o.st.pc[base:]) if len(o.st.pc) > base else z3.BoolVal(True)
            dv = z3.BitVecVal(r.disc, 64)
            d = dv if d is None else z3.If(cond, dv, d)
        return [Outcome(st, ret=EnumV(ety, z3.simplify(d), {}))]

    def s_try_into_heapless(ex, st, callee, args, argv, f):
        v = ex.deref_val(st, argv[0])
        m = re.search(r"Vec<u8, (\d+)>", callee)
        cap = int(m.group(1)) if m else 384
        return T.fork(ex, st, z3.ULE(v.e - v.s, cap),
                      lambda s1: [Outcome(s1, ret=EnumV("Result", 0, {0: [v]}))],
                      lambda s2: [Outcome(s2, ret=EnumV("Result", 1, {1: [UNIT]}))])

    def s_nom_err_ctor(ex, st, callee, args, argv, f):
        return ok1(st, Opaque("nom-error-value"))

    def s_iter(ex, st, callee, args, argv, f):
        return ok1(st, Opaque("iter", argv[0]))

    def s_take(ex, st, callee, args, argv, f):
        it, n = argv
        sl = ex.deref_val(st, it.e) if isinstance(it, Opaque) and it.tag == "iter" else None
        if not isinstance(sl, T.SliceV) or not z3.is_bv(n):
            raise Unsupported("iterator adapter on %r" % (it,))
        ln = sl.e - sl.s
        n8 = z3.Extract(T.W - 1, 0, n)
        big = z3.UGT(n, (1 << T.W) - 1) if n.size() > T.W else z3.BoolVal(False)
        if callee.endswith("::take"):
            return ok1(st, Opaque("iter", T.SliceV(sl.line, sl.s, z3.If(z3.Or(big, z3.UGE(n8, ln)), sl.e, sl.s + n8))))
        return ok1(st, Opaque("iter", T.SliceV(sl.line, z3.If(z3.Or(big, z3.UGE(n8, ln)), sl.e, sl.s + n8), sl.e)))

    def s_collect(ex, st, callee, args, argv, f):
        """collecting a byte iterator over (part of) the line into the owned payload buffer: represented by the slice itself, like
        `into()`.  (heapless' FromIterator panics beyond the capacity: a collect of more than the capacity is a panic path)"""
        it = argv[0]
        sl = ex.deref_val(st, it.e) if isinstance(it, Opaque) and it.tag == "iter" else None
        if not isinstance(sl, T.SliceV):
            raise Unsupported("collect over %r" % (it,))
        m = re.search(r"Vec<u8, (\d+)>", callee)
        if not m:
            return ok1(st, sl)
        cap = int(m.group(1))
        return T.fork(ex, st, z3.ULE(z3.ZeroExt(32, sl.e - sl.s), z3.BitVecVal(cap, T.W + 32)),
                      lambda s1: [Outcome(s1, ret=sl)],
                      lambda s2: [Outcome(s2, panic=Panic("heapless FromIterator: capacity exceeded", callee))])

    def s_fold(ex, st, callee, args, argv, f):
        it, init, clo = argv
        sl = ex.deref_val(st, it.e) if isinstance(it, Opaque) else None
        if not isinstance(sl, T.SliceV):
            raise Unsupported("fold over %r" % (it,))
        def step(acc, b):
            outs = ex.call_closure(st, clo, [acc, b])
            if len(outs) != 1 or outs[0].panic is not None:
                raise Unsupported("fold closure is not a straight-line function")
            return outs[0].ret
        # memo key from the closure's own MIR text: a changed fold closure or seed is a different term
        ctext = "".join(sorted(str(x) for x in ex.closures_by_span[clo.span].raw.items())) if getattr(clo, "span", None) in ex.closures_by_span else None
        key = "xor" if (ctext is not None and _is_plain_xor(ex, clo) and z3.is_bv_value(init) and init.as_long() == 0) else None
        return ok1(st, sl.line.fold(sl.s, sl.e, init, step, key=key))

    extra = [
        (r"^(?:messages::)?message_type$", s_message_type),
        (r"^<&\[u8\] as Into<(?:TalkerId|AisReportType)>>::into$|^<(?:TalkerId|AisReportType) as From<&\[u8\]>>::from$", s_into_enum),
        (r"^<&\[u8\] as TryInto<Vec<u8, \d+>>>::try_into$", s_try_into_heapless),
        (r"^nom::error::Error::<&\[u8\]>::new$|^<nom::error::Error<&\[u8\]> as ParseError<&\[u8\]>>::from_error_kind$", s_nom_err_ctor),
        (r"^core::slice::<impl \[u8\]>::iter$", s_iter),
        (r"as Iterator>::fold::<u8,", s_fold),
        (r"as Iterator>::(?:take|skip)$", s_take),
        (r"as Iterator>::(?:copied|cloned)(?:::<.*>)?$", lambda ex, st, c, a, v, f: ok1(st, v[0])),
        (r"as Iterator>::collect::<(?:std::vec::|alloc::vec::)?Vec<u8(?:, \d+)?>>$", s_collect),
    ]
    table = T.build_table(extra)
    ex = Executor(funcs, enums, structs, table)
    ex.unroll = N + 2                  # loops over the line (explicit `for`/`while` in the parsers): unrolled, with an unwinding assertion
    ex.use_solver_pruning = False      # formulas over the line array are large; infeasible paths are harmless (their condition is unsatisfiable)
    fparse = P.sentence_parser_fn(funcs)
    fchk = P.checksum_fn(funcs)
    if fparse is None or fchk is None:
        raise Unsupported("parse_nmea_sentence / check_checksum not found in the MIR dump")
    st = State()
    st.pc.append(line.wf)
    inp = T.SliceV(line, T.pos(0), line.n)
    # what AisParser::parse actually hands to the sentence parser and to the checksum function: a clamp or a re-slicing between the
    # entry point and those two calls is behaviour of the text layer too (round-4 changes C02-4, C08-4 sit exactly there)
    wiring = capture_wiring(funcs, enums, structs, extra, line, inp, fparse, fchk)
    outs = ex.run(fparse, [wiring["line_arg"]], st)
    paths = []
    for o in outs:
        pc = list(o.st.pc[1:])
        if o.panic is not None:
            paths.append({"pc": pc, "cat": A_PANIC, "note": "%s at %s" % (o.panic.msg, o.panic.where)})
            continue
        r = o.ret
        if r.disc == 1:
            e = r.payloads[1][0]
            paths.append({"pc": pc, "cat": A_REJECT, "note": str(e.payloads.get(e.disc, ["?"])[0]) if isinstance(e, EnumV) else "?"})
            continue
        rest, tup = r.payloads[0][0].fields
        raw, sent, chk32 = tup.fields
        if not (isinstance(raw, T.SliceV) and isinstance(sent, Agg) and len(sent.fields) == 10):
            raise Unsupported("parse_nmea_sentence returned %r" % (tup,))
        raw_c, chk_c = wiring["chk_args"](raw, chk32)
        for o2 in ex.run(fchk, [raw_c, chk_c], o.st):
            pc2 = list(o2.st.pc[1:])
            if o2.panic is not None:
                paths.append({"pc": pc2, "cat": A_PANIC, "note": o2.panic.msg})
                continue
            rec = {"pc": pc2, "raw": raw, "rest": rest, "sent": sent, "chk": chk32}
            r2 = o2.ret
            if r2.disc == 0:
                rec["cat"] = A_ACCEPT
            else:
                e = r2.payloads[1][0]
                if not (isinstance(e, EnumV) and e.ety == "Error" and e.disc == 1):
                    raise Unsupported("check_checksum error value %r" % (e,))
                rec["cat"] = A_CHECKSUM
                rec["expected"], rec["found"] = e.payloads[1][0], e.payloads[1][1]
            paths.append(rec)
    rel = TRel()
    rel.cfg, rel.N, rel.line, rel.paths, rel.mir_path = cfg, N, line, paths, mir_path
    rel.functions_encoded = sorted(ex.calls_inlined | {fparse.name, fchk.name}) + ["AisParser::parse (prefix up to the checksum call: arguments handed to the two functions)"]
    rel.wiring = wiring["note"]
    rel.summarised = sorted(ex.calls_summarised)
    rel.stats = {"paths": len(paths), "accept_paths": sum(1 for p in paths if p["cat"] == A_ACCEPT), "panic_paths": sum(1 for p in paths if p["cat"] == A_PANIC),
                 "blocks_executed": ex.blocks_visited, "encode_s": round(time.time() - t0, 2), "N": N}
    return rel


def capture_wiring(funcs, enums, structs, extra, line, inp, fparse, fchk):
    """run the prefix of AisParser::parse (layer T table, the two callees replaced by recorders) and return the slice it hands to the
    sentence parser and the (slice, checksum) it hands to the checksum function as functions of the parser's results"""
    fmain = None
    for name, fn in funcs.items():
        if name.endswith("::parse") and fn.args and enum_last(fn.args[0][1]) == "AisParser":
            fmain = fn
    if fmain is None:
        raise Unsupported("AisParser::parse not found in the MIR dump")
    RS, RE, CH = z3.BitVec("cap!rs", T.W), z3.BitVec("cap!re", T.W), z3.BitVec("cap!chk", 8)
    cap = {"line": [], "chk": []}

    def s_cap_parse(ex, st, callee, args, argv, f):
        v = ex.deref_val(st, argv[0])
        if not isinstance(v, T.SliceV):
            raise Unsupported("the sentence parser is applied to %r" % (v,))
        cap["line"].append((list(st.pc), v))
        sent = Agg([Opaque("captured-field-%d" % i) for i in range(10)], "AisSentence")
        okv = Agg([Opaque("rest"), Agg([T.SliceV(line, RS, RE), sent, CH])])
        return [Outcome(st, ret=EnumV("Result", 0, {0: [okv]}))]

    def s_cap_chk(ex, st, callee, args, argv, f):
        v, c = ex.deref_val(st, argv[0]), argv[1]
        if not (isinstance(v, T.SliceV) and z3.is_bv(c)):
            raise Unsupported("the checksum function is applied to %r, %r" % (v, c))
        cap["chk"].append((list(st.pc), v, c))
        return [Outcome(st, ret=EnumV("Result", 1, {1: [EnumV("Error", 1, {1: [c, c]})]}))]

    pn, cn = fparse.name.split("::")[-1], fchk.name.split("::")[-1]
    table = T.build_table([(r"(?:^|::)%s$" % re.escape(pn), s_cap_parse), (r"(?:^|::)%s$" % re.escape(cn), s_cap_chk)] + list(extra))
    ex = Executor(funcs, enums, structs, table)
    ex.use_solver_pruning = False
    ex.unroll = 3
    st = State()
    st.frames.append({0: Agg([Opaque("state-id"), Opaque("state-number"), Opaque("state-data")], "AisParser")})
    from mir.exec import RefV
    ex.run(fmain, [RefV(0, 0, []), inp, z3.Bool("cap!decode")], st)
    if not cap["line"] or not cap["chk"]:
        raise Unsupported("AisParser::parse does not reach the sentence parser / the checksum function on a recognisable path")

    def merge(items, pick):
        """value of pick(item) under the items' path conditions (nested ite; the last one is the default)"""
        val = pick(items[-1])
        for it in reversed(items[:-1]):
            c = z3.And(*it[0]) if it[0] else z3.BoolVal(True)
            val = z3.If(c, pick(it), val)
        return val

    la = T.SliceV(line, merge(cap["line"], lambda it: it[1].s), merge(cap["line"], lambda it: it[1].e))
    identity_line = len(cap["line"]) == 1 and z3.simplify(la.s == inp.s).eq(z3.BoolVal(True)) and z3.simplify(la.e == inp.e).eq(z3.BoolVal(True))
    cs, ce, cc = merge(cap["chk"], lambda it: it[1].s), merge(cap["chk"], lambda it: it[1].e), merge(cap["chk"], lambda it: it[2])
    identity_chk = len(cap["chk"]) == 1 and cs.eq(RS) and ce.eq(RE) and cc.eq(CH)

    def chk_args(raw, chk):
        if identity_chk:
            return raw, chk
        sub = [(RS, raw.s), (RE, raw.e), (CH, chk)]
        return T.SliceV(line, z3.substitute(cs, *sub), z3.substitute(ce, *sub)), z3.substitute(cc, *sub)

    return {"line_arg": inp if identity_line else la, "chk_args": chk_args,
            "note": "AisParser::parse hands %s to the sentence parser and %s to the checksum function" % (
                "the line itself" if identity_line else "a slice of the line (executed from its MIR)",
                "the covered bytes and the transmitted value as returned" if identity_chk else "a slice / value derived from them (executed from its MIR)")}


def enum_last(ty):
    from mir.exec import enum_name_of_type
    return enum_name_of_type(ty or "")


def _is_plain_xor(ex, clo):
    """is the fold closure literally `acc ^ item`?  (decided on symbolic arguments; only used to share the term with the oracle)"""
    a, b = z3.BitVec("fold_acc", 8), z3.BitVec("fold_item", 8)
    outs = ex.call_closure(State(), clo, [a, b])
    if len(outs) != 1 or outs[0].panic is not None:
        return False
    s = z3.Solver()
    s.add(outs[0].ret != (a ^ b))
    return s.check() == z3.unsat


# ---------------------------------------------------------------- reference (specification) over the same line

class Ref:
    """the sentence grammar of C08 and the field extraction of C07 / checksum rule of C02, written from the property text"""

    def __init__(self, line):
        ln = self.ln = line
        n, at = ln.n, ln.at
        p = T.pos
        BS, COMMA, STAR = 0x5C, 0x2C, 0x2A
        has_tag = z3.And(z3.UGT(n, 0), at(p(0)) == BS)
        tag_end = ln.first(lambda b: b == BS, p(1), n, key="eq%d" % BS)
        tag_ok = z3.And(has_tag, z3.ULT(tag_end, n))
        self.b = b = z3.If(tag_ok, tag_end + 1, p(0))
        start_ok = z3.And(z3.ULT(b, n), z3.Or(at(b) == 0x21, at(b) == 0x24))
        self.a = a = b + 1
        c1 = a + 5
        addr_ok = z3.And(z3.ULT(c1, n), at(c1) == COMMA)

        def number(s):
            e = ln.first(lambda x: z3.Not(T.is_digit(x)), s, n, key="nondigit")
            big = z3.BitVecVal(1000, 16)
            val = ln.fold(s, e, z3.BitVecVal(0, 16), lambda acc, x: z3.If(z3.UGT(acc, 255), big, acc * 10 + z3.ZeroExt(8, x - 48)), key="decimal")
            return e, val

        d1s = c1 + 1
        d1e, v1 = number(d1s)
        ok1_ = z3.And(z3.UGT(d1e, d1s), z3.ULE(v1, 255), z3.ULT(d1e, n), at(d1e) == COMMA)
        d2s = d1e + 1
        d2e, v2 = number(d2s)
        ok2 = z3.And(z3.UGT(d2e, d2s), z3.ULE(v2, 255), z3.ULT(d2e, n), at(d2e) == COMMA)
        d3s = d2e + 1
        d3e, v3 = number(d3s)
        ok3 = z3.And(z3.Or(d3e == d3s, z3.ULE(v3, 255)), z3.ULT(d3e, n), at(d3e) == COMMA)
        ch_s = d3e + 1
        ch_e = ln.first(lambda x: x == COMMA, ch_s, n, key="eq%d" % COMMA)
        ok4 = z3.ULT(ch_e, n)
        p_s = ch_e + 1
        p_e = ln.first(lambda x: x == COMMA, p_s, n, key="eq%d" % COMMA)
        ok5 = z3.And(z3.ULT(p_e, n), z3.UGT(p_e, p_s))
        f_s = p_e + 1
        f_e, vf = number(f_s)
        ok6 = z3.And(z3.UGT(f_e, f_s), z3.ULT(vf, 6), z3.ULT(f_e, n), at(f_e) == STAR)
        star = ln.first(lambda x: x == STAR, a, n, key="eq%d" % STAR)
        self.star = star
        ok7 = star == f_e                     # the terminating '*' is the first '*' after the start delimiter (C02)
        h_s = f_e + 1
        h_e = ln.first(lambda x: z3.Not(T.is_hex(x)), h_s, n, key="nonhex")
        nd = h_e - h_s
        used, H = T.hex_value(ln, h_s, h_e)
        ok8 = z3.And(z3.UGT(h_e, h_s), z3.ULE(H, 0xFF))
        self.H = H
        self.X = ln.fold(a, star, z3.BitVecVal(0, 8), lambda acc, x: acc ^ x, key="xor")
        self.embedded_star = z3.And(start_ok, z3.ULT(star, n), star != f_e)
        self.shape = z3.And(start_ok, addr_ok, ok1_, ok2, ok3, ok4, ok5, ok6, ok8)      # everything but the first-'*' rule and the checksum value
        self.wellformed = z3.And(self.shape, ok7)
        self.checksum_ok = self.X == z3.Extract(7, 0, H)
        # fields (C07)
        self.nf, self.fn = z3.Extract(7, 0, v1), z3.Extract(7, 0, v2)
        self.id_some, self.id_v = d3e != d3s, z3.Extract(7, 0, v3)
        self.ch_some, self.ch = ch_e != ch_s, z3.ZeroExt(24, at(ch_s))
        self.p_s, self.p_e = p_s, p_e
        self.fill = z3.Extract(7, 0, vf)
        self.h_e = z3.If(z3.ULE(nd, 8), h_e, h_s + 8)
        t0, t1 = at(a), at(a + 1)
        talker = z3.BitVecVal(10, 64)
        for i, nm in enumerate(TALKERS):
            talker = z3.If(z3.And(t0 == ord(nm[0]), t1 == ord(nm[1])), z3.BitVecVal(i, 64), talker)
        self.talker = talker
        r0, r1, r2 = at(a + 2), at(a + 3), at(a + 4)
        self.rtype = z3.If(z3.And(r0 == ord("V"), r1 == ord("D"), r2 == ord("M")), z3.BitVecVal(0, 64),
                           z3.If(z3.And(r0 == ord("V"), r1 == ord("D"), r2 == ord("O")), z3.BitVecVal(1, 64), z3.BitVecVal(2, 64)))
        c = at(p_s)
        self.val6 = z3.If(z3.And(z3.UGE(c, 48), z3.ULE(c, 87)), c - 48, z3.If(z3.And(z3.UGE(c, 96), z3.ULE(c, 119)), c - 56, z3.BitVecVal(255, 8)))
        self.first_payload = c


def disc64(v):
    return z3.BitVecVal(v.disc, 64) if isinstance(v.disc, int) else v.disc


def pc_of(p):
    return z3.And(*p["pc"]) if p["pc"] else z3.BoolVal(True)


def cat_is(rel, cat):
    ps = [pc_of(p) for p in rel.paths if p["cat"] == cat]
    return z3.Or(*ps) if ps else z3.BoolVal(False)


def model_line(model, rel):
    if hasattr(rel.line, "expand"):
        return rel.line.expand(lambda e: model.eval(e, model_completion=True))
    n = model.eval(rel.line.n, model_completion=True).as_long()
    return bytes(model.eval(rel.line.bytes[i], model_completion=True).as_long() for i in range(min(n, rel.N)))


def real_outcome(cfg, line):
    outs, path = run_driver(cfg, ["N", (False, line)])
    return parse_out(outs[0]), outs[0]


def concrete_eval(rel, ref, line):
    """category (and fields) the encoding assigns to a concrete line, and the reference verdict"""
    if hasattr(rel.line, "concrete_subst"):
        sub = rel.line.concrete_subst(line)
        if sub is None:
            return None, None, None
    else:
        sub = [(rel.line.bytes[i], z3.BitVecVal(line[i] if i < len(line) else 0, 8)) for i in range(rel.N)] + [(rel.line.n, T.pos(len(line)))]
    ev = lambda e: z3.simplify(z3.substitute(e, *sub))
    cat = None
    for p in rel.paths:
        if z3.is_true(ev(pc_of(p))):
            cat = p["cat"]
            break
    wf, ck = z3.is_true(ev(ref.wellformed)), z3.is_true(ev(ref.checksum_ok))
    return cat, wf, ck


def corpus(seed):
    import random
    rnd = random.Random(seed + 17)
    base = [b"!AIVDM,1,1,,A,E>kb9I99S@0`8@:9ah;0TahI7@@;V4=v:nv;h00003vP100,0*7A", b"!AIVDM,1,1,,A,E>kb9I99S@0`8@:9ah;0TahI7@@;V4=v:nv;h00003vP100,0*8D",
            b"!AIVDM,2,2,1,B,0000000,2*26", b"!AIVDM,1,1,,,34RvgN500005tLTMfjiTs3u`0>`<,0*7A", b"\\s:2573345,c:1696241893*00\\!AIVDM,2,2,1,B,0000000,2*26",
            b"$AIVDO,1,1,,B,15,0*3B", b"!BSVDM,12,3,45,AB,w0`,5*00", b"!AIVDM,1,1,,A,15,0*08"]
    out = list(base)
    for _ in range(260):
        l = bytearray(rnd.choice(base[2:]))
        op = rnd.randint(0, 3)
        i = rnd.randrange(len(l))
        if op == 0:
            l[i] = rnd.choice(b"!$,*0123456789ABCDEFabcdef\\ Zz\xff\x00")
        elif op == 1:
            del l[i]
        elif op == 2:
            l.insert(i, rnd.choice(b"!$,*0169AFaf\\"))
        else:
            # re-checksum a mutated body so that deeper grammar checks are reached
            l[i] = rnd.choice(b",*0125679")
            try:
                s = bytes(l)
                st = s.index(b"!") if b"!" in s else 0
                body = s[st + 1:s.rindex(b"*")]
                x = 0
                for ch in body:
                    x ^= ch
                l = bytearray(s[:s.rindex(b"*") + 1] + b"%02X" % x)
            except ValueError:
                pass
        out.append(bytes(l))
    return [l for l in out]


def gap_corpus(seed):
    """long concrete lines for the gap model: sentences whose payload (or another field) contains a long run of one character"""
    import random
    from ms import nmea_line
    rnd = random.Random(seed + 91)
    out = []
    for k in (0, 1, 5, 40, 60, 100, 383, 384, 385, 500, 2000):
        for ch in ("w", "G", ":", "`", "k"):
            out.append(nmea_line(1, 1, None, "1" + ch * k + "0", 0))
            out.append(nmea_line(2, 1, 3, ch * k + "5", 2))
            out.append(nmea_line(1, 1, None, ch * k, 0, good_checksum=False))
        out.append(nmea_line(1, 1, None, "1" + "w" * k, 0).replace(b",A,", b",A" + b"w" * k + b","))       # long channel field
        out.append(nmea_line(1, 1, None, "15", 0)[:-3] + b"W" * k + b"*00")                              # run before the '*'
        out.append(b"\\s:" + b"k" * k + b"*00\\" + nmea_line(1, 1, None, "15", 0))                         # run inside a tag block
        out.append(nmea_line(1, 1, None, "15", 0) + b"w" * k)                                             # trailing run
    # mutate a few
    muts = []
    for l in out[:40]:
        b = bytearray(l)
        if b:
            i = rnd.randrange(len(b))
            b[i] = rnd.choice(b",*!0A\\w")
            muts.append(bytes(b))
    return out + muts


def translator_validation(res, rel, ref, seed):
    t0 = time.time()
    bad = n = 0
    if hasattr(rel.line, "concrete_subst"):
        lines = [l for l in gap_corpus(seed) if rel.line.concrete_subst(l) is not None]
    else:
        lines = [l for l in corpus(seed) if len(l) <= rel.N]
    script = []
    for l in lines:
        script += ["N", (False, l)]
    outs, _ = run_driver(rel.cfg, script)
    for l, o in zip(lines, outs):
        real = parse_out(o)
        cat, wf, ck = concrete_eval(rel, ref, l)
        if cat is None and wf is None:
            continue
        rc = {"C": A_ACCEPT, "I": A_ACCEPT, "P": A_PANIC}.get(real["kind"], A_CHECKSUM if real.get("sub") == "checksum" else A_REJECT)
        # accepted by layer T but rejected later by the fragment logic counts as accepted here
        if real["kind"] == "E" and real.get("sub") == "nmea" and cat == A_ACCEPT:
            f = l.split(b",")
            if len(f) > 2 and f[1] != b"1":
                rc = A_ACCEPT
        n += 1
        if rc != cat:
            bad += 1
            res.norepro.append("translator validation (layer T): real parser and encoding disagree on %r: real %s, encoding category %s" % (l, o, cat))
            if bad > 3:
                break
    it = {"engine": "M", "query": "translator-validation-T[%s]" % rel.cfg, "result": "agree" if not bad else "DISAGREE", "seconds": round(time.time() - t0, 2), "lines": n}
    log("  [M] %-52s %-8s %.2fs (%d lines)" % (it["query"], it["result"], it["seconds"], n))
    res.items.append(it)
    res.replayed += n
    return bad == 0


# ---------------------------------------------------------------- queries

class Ctx:
    def __init__(self, res, rel, ref):
        self.res, self.rel, self.ref = res, rel, ref
        self.queue = []


def _record(res, name, r, dt, meaning=None):
    it = {"engine": "M", "query": name, "result": r, "seconds": round(dt, 3)}
    log("  [M] %-52s %-8s %.2fs" % (name, r, dt))
    res.items.append(it)
    res.queries += 1
    if r in ("sat", "unsat"):
        res.nontrivial += 1
    if meaning and len(res.samples) < 12:
        res.samples.append({"query": name, "meaning": meaning})
    return it


def ask(cx, name, bad, meaning, judge, extra_for_replay=None, timeout_s=None, witness_search=None):
    """register a query: bad must be UNSAT.  judge(line, real_outcome, (cat, wf, ck)) -> violation text or None.
    witness_search(cfg, model line) -> (line, decode, raw driver output, violation text) or None: used when the model's own line does
    not show the violation this property is about (then an unconfirmed model makes the run inconclusive, not 'not reproduced').
    Queries are solved together (in parallel) by run_queries()."""
    cx.queue.append({"name": name, "bad": bad, "meaning": meaning, "judge": judge, "extra": extra_for_replay, "search": witness_search})
    return True


def run_queries(cx, timeout_s=600, hunt=False):
    """hunt=True: bug hunting only - a query the solver does not decide within the budget is recorded as such but makes nothing
    inconclusive (no claim is made from it); a satisfiable one is replayed and reported like any other"""
    from ms import solve_many
    res, rel, ref = cx.res, cx.rel, cx.ref
    qs, cx.queue = cx.queue, []
    results = solve_many([[rel.line.wf, q["bad"]] for q in qs], timeout_s=timeout_s, sat_backend=True)
    ok = True
    for q, (s, r, dt, note) in zip(qs, results):
        name = q["name"]
        it = _record(res, "%s[%s,N=%d%s]" % (name, rel.cfg, rel.N, "+run<=%d" % rel.line.gmax if hasattr(rel.line, "expand") else ""), r, dt, q["meaning"])
        it["solver"] = note
        if r == "unsat":
            continue
        ok = False
        if r != "sat":
            if hunt:
                it["note"] = "bug hunting only: undecided within %d s, nothing is claimed from this query" % timeout_s
            else:
                res.inconclusive.append("%s[%s]: %s" % (name, rel.cfg, r))
            continue
        m = s.model()
        if q["extra"] is not None:
            s2, r2, dt2 = solve([rel.line.wf, q["bad"], q["extra"]], timeout_s=120)
            _record(res, "%s(replayable witness)[%s]" % (name, rel.cfg), r2, dt2)
            if r2 == "sat":
                m = s2.model()
        line = model_line(m, rel)
        real, raw_out = real_outcome(rel.cfg, line)
        res.replayed += 1
        ce = concrete_eval(rel, ref, line)
        what = q["judge"](line, real, ce)
        script_decode = 0
        if not what and q.get("search") is not None:
            found = q["search"](rel.cfg, line)
            res.replayed += 1
            if found is not None:
                line, script_decode, raw_out, what = found
            else:
                res.inconclusive.append("%s[%s]: the query is satisfiable (model line %r) but no line showing the property's own violation was found" % (name, rel.cfg, line))
                continue
        if what:
            rec = {"property": res.prop, "engine": "M", "query": name, "cfg": rel.cfg, "line": line.decode("latin1"), "line_hex": line.hex(),
                   "real_output": raw_out, "reference": {"wellformed": ce[1], "checksum_matches": ce[2]}, "what": what,
                   "script": ["N", "L %d " % script_decode + line.hex()]}
            path = kflow.write_replay(res.prop, rec)
            res.violations.append({"what": "%s[%s]: %s | line %r -> %s" % (name, rel.cfg, what, line, raw_out), "replay": path})
            print("VIOLATION property=%s replay=%s" % (res.prop, path), flush=True)
            log("    reproduced on the real library: %s | %r -> %s" % (what, line, raw_out))
        else:
            res.norepro.append("%s[%s]: model line %r behaves correctly on the real library (%s); encoding category %s" % (name, rel.cfg, line, raw_out, ce[0]))
    return ok


def real_accepts_T(real):
    """did layer T accept the line (Complete/Incomplete, or a checksum verdict)?  'E nmea' may also come from the fragment logic."""
    return real["kind"] in ("C", "I")


def q_shapes(cx):
    """C08: exactly the well-formed shapes are accepted (lines with an embedded '*' are judged by C02 alone)"""
    rel, ref = cx.rel, cx.ref
    acc = z3.Or(cat_is(rel, A_ACCEPT), cat_is(rel, A_CHECKSUM))
    ok = ask(cx, "only-wellformed-lines-pass-the-sentence-parser", z3.And(acc, z3.Not(ref.embedded_star), z3.Not(ref.wellformed)),
             "a line that the parser accepts (or judges by its checksum) has exactly the shape of C08",
             lambda line, real, ce: ("accepted although the line is not a well-formed sentence" if (real["kind"] in "CI" or real.get("sub") == "checksum") and not ce[1] else None))
    ok &= ask(cx, "every-wellformed-line-passes-the-sentence-parser", z3.And(ref.wellformed, cat_is(rel, A_REJECT)),
              "a line of the shape of C08 is never rejected by the sentence parser",
              lambda line, real, ce: ("well-formed sentence rejected" if ce[1] and real["kind"] == "E" and real.get("sub") == "nmea" else None),
              extra_for_replay=z3.And(ref.fn == 1))
    return ok


def q_gate(cx):
    """C02: checksum gate with the first '*' rule"""
    rel, ref = cx.rel, cx.ref
    ln = rel.line
    hs = ref.star + 1
    he = ln.first(lambda x: z3.Not(T.is_hex(x)), hs, ln.n, key="nonhex")
    used, H1 = T.hex_value(ln, hs, he)
    gate = z3.And(z3.ULT(ref.star, ln.n), z3.UGT(he, hs), z3.ULE(H1, 0xFF), z3.Extract(7, 0, H1) == ref.X)
    ok = ask(cx, "accepted=>xor(up to first '*')==hex(after it)", z3.And(cat_is(rel, A_ACCEPT), z3.Not(gate)),
             "accepted only if the XOR of the bytes between the start delimiter and the first '*' equals the hex value following that '*' (<= 0xFF)",
             lambda line, real, ce: ("accepted although XOR up to the first '*' differs from the hex value after it" if real["kind"] in "CI" else None),
             extra_for_replay=z3.And(ref.fn == 1))
    bad = []
    for p in rel.paths:
        if p["cat"] == A_CHECKSUM:
            bad.append(z3.And(pc_of(p), z3.Not(z3.And(p["expected"] == z3.Extract(7, 0, ref.H), p["found"] == ref.X, ref.X != z3.Extract(7, 0, ref.H), ref.wellformed))))
    ok &= ask(cx, "checksum-error-carries-transmitted-and-computed", z3.Or(*bad) if bad else z3.BoolVal(False),
              "Err(Checksum{expected, found}) only for a well-formed line whose values differ, expected = transmitted, found = computed",
              lambda line, real, ce: ("checksum error does not carry (transmitted, computed) or was raised for a malformed / matching line"
                                      if real["kind"] == "E" and real.get("sub") == "checksum" else None))
    ok &= ask(cx, "wellformed+mismatch=>checksum-error", z3.And(ref.wellformed, z3.Not(ref.checksum_ok), z3.Not(cat_is(rel, A_CHECKSUM))),
              "a well-formed line whose checksum differs yields the checksum error, never a result",
              lambda line, real, ce: ("well-formed line with a wrong checksum did not yield a checksum error" if ce[1] and not ce[2] and not (real["kind"] == "E" and real.get("sub") == "checksum") else None))
    ok &= ask(cx, "wellformed+match=>accepted", z3.And(ref.wellformed, ref.checksum_ok, z3.Not(cat_is(rel, A_ACCEPT))),
              "a well-formed line whose checksum matches is never rejected with a checksum error (it is accepted by layer T)",
              lambda line, real, ce: ("well-formed line with a matching checksum rejected" if ce[1] and ce[2] and real["kind"] == "E" and real.get("sub") == "checksum" else None),
              extra_for_replay=z3.And(ref.fn == 1))
    return ok


def q_fields(cx):
    """C07: the returned sentence carries exactly the transmitted fields"""
    rel, ref = cx.rel, cx.ref
    bad = []
    for p in rel.paths:
        if p["cat"] != A_ACCEPT:
            continue
        f = p["sent"].fields
        idv, chv, data = f[4], f[5], f[6]
        if not (isinstance(data, T.SliceV) and isinstance(idv, EnumV) and isinstance(chv, EnumV)):
            raise Unsupported("sentence fields %r" % (f,))
        idd, chd = disc64(idv), disc64(chv)
        idval = idv.payloads.get(1, [z3.BitVecVal(0, 8)])[0]
        chval = chv.payloads.get(1, [z3.BitVecVal(0, 32)])[0]
        msg_none = isinstance(f[9], EnumV) and f[9].disc == 0
        good = z3.And(disc64(f[0]) == ref.talker, disc64(f[1]) == ref.rtype, f[2] == ref.nf, f[3] == ref.fn,
                      (idd == 1) == ref.id_some, z3.Or(idd == 0, idval == ref.id_v), (chd == 1) == ref.ch_some, z3.Or(chd == 0, chval == ref.ch),
                      data.s == ref.p_s, data.e == ref.p_e, f[7] == ref.fill, z3.BoolVal(msg_none),
                      p["raw"].s == ref.a, p["raw"].e == ref.star, z3.ZeroExt(24, p["chk"]) == ref.H if p["chk"].size() == 8 else p["chk"] == ref.H)
        bad.append(z3.And(pc_of(p), z3.Not(good)))
    def judge(line, real, ce):
        if real["kind"] not in "CI":
            return None
        # reference fields of this concrete line, from the specification-side extractor
        if hasattr(rel.line, "concrete_subst"):
            sub = rel.line.concrete_subst(line)
            if sub is None:
                return None
        else:
            sub = [(rel.line.bytes[i], z3.BitVecVal(line[i] if i < len(line) else 0, 8)) for i in range(rel.N)] + [(rel.line.n, T.pos(len(line)))]
        ev = lambda e: z3.simplify(z3.substitute(e, *sub))
        try:
            ps, pe = ev(ref.p_s).as_long(), ev(ref.p_e).as_long()
            want = {"nf": ev(ref.nf).as_long(), "fn": ev(ref.fn).as_long(), "id": ev(ref.id_v).as_long() if z3.is_true(ev(ref.id_some)) else None,
                    "fill": ev(ref.fill).as_long(), "data": bytes(line[ps:pe]), "channel": ev(ref.ch).as_long() if z3.is_true(ev(ref.ch_some)) else None,
                    "talker": (TALKERS + ["Unknown"])[ev(ref.talker).as_long()], "rtype": ["VDM", "VDO", "Unknown"][ev(ref.rtype).as_long()]}
        except Exception:
            return None
        got = {k: real.get(k) for k in want}
        diff = {k: (got[k], want[k]) for k in want if got[k] != want[k]}
        return None if not diff else "returned fields differ from the transmitted ones (got, transmitted): %s" % diff
    return ask(cx, "accepted-sentence-reports-the-transmitted-fields", z3.Or(*bad) if bad else z3.BoolVal(False),
               "talker (ten ids, else Unknown), report type, count, number, optional id, channel = first byte of its field, fill, raw payload bytes = the payload field; raw = bytes between start delimiter and '*'",
               judge, extra_for_replay=z3.And(ref.fn == 1))


def q_postconditions(cx):
    """what layer S assumes about an accepted sentence"""
    rel, ref = cx.rel, cx.ref
    ln = rel.line
    bad = []
    for p in rel.paths:
        if p["cat"] != A_ACCEPT:
            continue
        f = p["sent"].fields
        d = f[6]
        nocomma = ln.first(lambda x: z3.Or(x == 0x2C, x == 0x2A), d.s, d.e, key="comma-or-star") == d.e
        lim = [z3.ULE(d.e - d.s, 384)] if rel.cfg == "none" else []
        bad.append(z3.And(pc_of(p), z3.Not(z3.And(z3.UGT(d.e, d.s), z3.ULT(f[7], 6), nocomma, *lim))))
    return ask(cx, "layer-T-postconditions-assumed-by-layer-S", z3.Or(*bad) if bad else z3.BoolVal(False),
               "accepted sentence: payload non-empty, free of ',' and '*', fill < 6 (no-alloc: payload <= 384 bytes)",
               lambda line, real, ce: ("accepted sentence violates a layer-T postcondition (empty payload / fill >= 6 / ',' or '*' in the payload)" if real["kind"] in "CI" else None),
               extra_for_replay=z3.And(ref.fn == 1))


def panic_search(cfg, line):
    """a line on which the sentence layer's hand-over contract fails: look for an actual panic of the payload layer behind it
    (single complete sentence, decoding on; the model's payload and short prefixes of it; the model's fill count and larger ones)"""
    try:
        body = line[line.index(b"!") + 1:line.rindex(b"*")] if b"!" in line else line[1:line.rindex(b"*")]
        f = body.split(b",")
        payload, fill = f[5], f[6]
    except Exception:
        return None
    cands = []
    fills = []
    for x in (fill, b"6", b"7", b"8", b"9", b"5", b"0"):
        if x not in fills:
            fills.append(x)
    for pl in (payload, payload[:1], payload[:2], b"0", b"00", b"w", b""):
        for fl in fills:
            b2 = b"AIVDM,1,1,,A," + pl + b"," + fl
            cs = 0
            for ch in b2:
                cs ^= ch
            cands.append(b"!" + b2 + b"*%02X" % cs)
    seen, script = set(), []
    for c_ in cands:
        if c_ not in seen:
            seen.add(c_)
            script += ["N", (True, c_)]
    outs, path = run_driver(cfg, script)
    lines_ = [x for x in script if x != "N"]
    for (dec, c_), o in zip(lines_, outs):
        if o.startswith("P"):
            return c_, 1, o, "panic: " + o[2:]
    return None


def q_handover_for_totality(cx):
    """C01: the payload layer is shown panic-free for what the sentence layer hands over (fill 0..=5, ...).  If that contract
    fails on this code, an actual panic behind it is searched for; only a panic is a violation of C01."""
    rel, ref = cx.rel, cx.ref
    ln = rel.line
    bad = []
    for p in rel.paths:
        if p["cat"] != A_ACCEPT:
            continue
        f = p["sent"].fields
        bad.append(z3.And(pc_of(p), z3.Not(z3.ULT(f[7], 6))))
    return ask(cx, "fill-count-handed-to-the-payload-layer-is-0..5", z3.Or(*bad) if bad else z3.BoolVal(False),
               "accepted sentence: fill < 6 (the precondition under which unarmor is shown panic-free)",
               lambda line, real, ce: ("panic: " + real.get("msg", "") if real["kind"] == "P" else None),
               extra_for_replay=z3.And(ref.fn == 1), witness_search=panic_search)


def q_no_panic(cx):
    rel = cx.rel
    return ask(cx, "no-panic-edge-in-the-sentence-parser", cat_is(rel, A_PANIC),
               "no MIR assert / unreachable edge of parse_nmea_sentence, parse_ais_sentence, the crate's closures, From impls and check_checksum is reachable for any line",
               lambda line, real, ce: ("panic: " + real.get("msg", "") if real["kind"] == "P" else None))


def q_message_type(cx, known):
    """C19: sentence.message_type vs the 6-bit value of the first payload character"""
    res, rel, ref = cx.res, cx.rel, cx.ref
    bad, resid = [], []
    for p in rel.paths:
        if p["cat"] != A_ACCEPT:
            continue
        mt_ = p["sent"].fields[8]
        bad.append(z3.And(pc_of(p), ref.val6 != 255, mt_ != ref.val6))
        resid.append(z3.And(pc_of(p), mt_ != z3.LShR(ref.first_payload, 2)))
    s, r, dt = solve([rel.line.wf, z3.Or(*bad)], timeout_s=240)
    _record(res, "sentence.message_type==val6(first payload char)[%s,N=%d]" % (rel.cfg, rel.N), r, dt,
            "for every accepted line whose payload starts with an armoring character, sentence.message_type equals that character's 6-bit value")
    if r == "unsat":
        return True
    if r != "sat":
        res.inconclusive.append("C19 spec query: " + r)
        return False
    # residual that pins the known wrong behaviour exactly: message_type == first payload byte >> 2
    s2, r2, dt2 = solve([rel.line.wf, z3.Or(*resid)], timeout_s=240)
    _record(res, "residual: sentence.message_type==first_byte>>2[%s]" % rel.cfg, r2, dt2,
            "the recorded known finding is exactly: message_type = (first armored payload byte) >> 2")
    m = s.model()
    s3, r3, _ = solve([rel.line.wf, z3.Or(*bad), ref.fn == 1, ref.nf == 1], timeout_s=240)
    if r3 == "sat":
        m = s3.model()
    line = model_line(m, rel)
    real, raw_out = real_outcome(rel.cfg, line)
    res.replayed += 1
    ce = concrete_eval(rel, ref, line)
    first = None
    try:
        fb = m.eval(ref.first_payload, model_completion=True)
        first = chr(fb.as_long()) if z3.is_bv_value(fb) else None
    except Exception:
        pass
    v6 = None
    if first is not None:
        c = ord(first)
        v6 = c - 48 if 48 <= c <= 87 else (c - 56 if 96 <= c <= 119 else None)
    reproduced = real["kind"] in "CI" and v6 is not None and real["mt"] != v6
    if not reproduced:
        res.norepro.append("C19: model line %r did not show a wrong message_type on the real library (%s)" % (line, raw_out))
        return False
    if known and r2 == "unsat" and real["mt"] == (ord(first) >> 2):
        linek = "KNOWN-FINDING: property=C19 " + known["text"]
        if linek not in res.known:
            res.known.append(linek)
            print(linek, flush=True)
        res.extra.setdefault("known_finding_witness", {"line": line.decode("latin1"), "real_output": raw_out, "val6": v6})
        return True
    rec = {"property": res.prop, "engine": "M", "query": "sentence.message_type", "cfg": rel.cfg, "line": line.decode("latin1"), "line_hex": line.hex(),
           "real_output": raw_out, "expected_type": v6, "what": "sentence.message_type = %d, 6-bit value of the first payload character %r = %d" % (real["mt"], first, v6),
           "script": ["N", "L 0 " + line.hex()]}
    path = kflow.write_replay(res.prop, rec)
    res.violations.append({"what": rec["what"] + (" (and not the recorded known behaviour first_byte>>2)" if known else ""), "replay": path})
    print("VIOLATION property=%s replay=%s" % (res.prop, path), flush=True)
    return False


def q_cfg_miter(res, ra, rb):
    """C18, text layer: the sentence parser of two build configurations on the same symbolic line: same category, same fields"""
    assert ra.line is rb.line
    def accept_fields(rel):
        ps = [p for p in rel.paths if p["cat"] == A_ACCEPT]
        if len(ps) != 1:
            raise Unsupported("expected one merged accept path, got %d" % len(ps))
        f = ps[0]["sent"].fields
        idv, chv, d = f[4], f[5], f[6]
        return [disc64(f[0]), disc64(f[1]), f[2], f[3], disc64(idv), idv.payloads.get(1, [z3.BitVecVal(0, 8)])[0], disc64(chv),
                chv.payloads.get(1, [z3.BitVecVal(0, 32)])[0], d.s, d.e, f[7], f[8], ps[0]["raw"].s, ps[0]["raw"].e]
    diffs = [cat_is(ra, c) != cat_is(rb, c) for c in (A_ACCEPT, A_CHECKSUM, A_REJECT, A_PANIC)]
    fa, fb = accept_fields(ra), accept_fields(rb)
    idok = [z3.BoolVal(True)] * len(fa)
    fd = []
    for i, (x, y) in enumerate(zip(fa, fb)):
        if i == 5:      # id value only matters when present
            fd.append(z3.And(fa[4] == 1, x != y))
        elif i == 7:
            fd.append(z3.And(fa[6] == 1, x != y))
        else:
            fd.append(x != y)
    bad = z3.Or(z3.Or(*diffs), z3.And(cat_is(ra, A_ACCEPT), z3.Or(*fd)))
    s, r, dt = solve([ra.line.wf, bad], timeout_s=600, sat_backend=True)
    it = _record(res, "text-layer-miter[%s vs %s,N=%d]" % (ra.cfg, rb.cfg, ra.N), r, dt,
                 "the sentence parsers of the two configurations agree on accept / checksum error / reject and on every sentence field for every line (payloads beyond 384 bytes are outside N)")
    if r == "sat":
        line = model_line(s.model(), ra)
        oa, ob = real_outcome(ra.cfg, line)[1], real_outcome(rb.cfg, line)[1]
        res.replayed += 2
        if oa.split()[:8] != ob.split()[:8]:
            rec = {"property": res.prop, "engine": "M", "query": it["query"], "line": line.decode("latin1"), "line_hex": line.hex(), ra.cfg: oa, rb.cfg: ob,
                   "what": "configurations disagree on a line", "script": ["N", "L 0 " + line.hex()], "cfg": rb.cfg}
            path = kflow.write_replay(res.prop, rec)
            res.violations.append({"what": "%s: %r -> %s: %s / %s: %s" % (it["query"], line, ra.cfg, oa, rb.cfg, ob), "replay": path})
            print("VIOLATION property=%s replay=%s" % (res.prop, path), flush=True)
        else:
            res.norepro.append("%s: model line %r gives the same result in both real builds (%s)" % (it["query"], line, oa))
    elif r != "unsat":
        res.inconclusive.append(it["query"] + ": " + r)
    return r == "unsat"
