"""Generic flow for a property decided (wholly or partly) by Kani harnesses."""
import hashlib, json, os

import kanirun
from common import REPLAY_DIR, VERIF, load_known_findings, log


def K(harness, cfgs=("std",), timeout=600, mem_gb=14):
    return [{"cfg": c, "harness": harness, "timeout": timeout, "mem_gb": mem_gb} for c in cfgs]


def _known_entry(prop, harness, cfg):
    for e in load_known_findings().get("known", []):
        if e["property"] == prop and e.get("harness") == harness and cfg in e.get("cfgs", ["std", "alloc", "none"]):
            return e
    return None


def write_replay(prop, rec):
    os.makedirs(REPLAY_DIR, exist_ok=True)
    dflt = lambda o: o.decode("latin1") if isinstance(o, (bytes, bytearray)) else str(o)
    h = hashlib.sha1(json.dumps(rec, sort_keys=True, default=dflt).encode()).hexdigest()[:10]
    import re as _re
    name = _re.sub(r"[^A-Za-z0-9_.-]+", "_", str(rec.get("harness", rec.get("query", "q"))))[:60]
    p = os.path.join(REPLAY_DIR, "%s-%s-%s.json" % (prop, name, h))
    with open(p, "w") as f:
        json.dump(rec, f, indent=1, default=dflt)
    return p


def run_kani_jobs(res, jobs, note=None, fallback=None, workers=None):
    """runs jobs, classifies outcomes into res (Result). Returns list of raw results."""
    prop = res.prop
    # residual harnesses required by known findings are added automatically
    extra = []
    for j in jobs:
        e = _known_entry(prop, j["harness"], j["cfg"])
        if e and e.get("residual"):
            extra.append({"cfg": j["cfg"], "harness": e["residual"], "timeout": j["timeout"], "mem_gb": j["mem_gb"], "residual": True})
    seen = set()
    alljobs = []
    for j in jobs + extra:
        k = (j["cfg"], j["harness"])
        if k not in seen:
            seen.add(k)
            alljobs.append(j)
    results, build_s = kanirun.run_many(alljobs, workers=workers)
    # fast-path harnesses (leaf stubs) that fail are re-decided by their direct (unstubbed) harness
    if fallback:
        redo = []
        for r in results:
            if r["outcome"] != "PASS" and r["harness"] in fallback:
                log("  %s %s[%s] -> deciding with the direct harness %s" % (r["outcome"], r["harness"], r["cfg"], fallback[r["harness"]]))
                res.items.append({"engine": "kani", "harness": r["harness"], "cfg": r["cfg"], "outcome": r["outcome"] + "->fallback",
                                  "failed": [f["desc"] for f in r.get("failed", [])]})
                redo.append({"cfg": r["cfg"], "harness": fallback[r["harness"]], "timeout": 2700, "mem_gb": 14})
        if redo:
            results = [r for r in results if not (r["outcome"] != "PASS" and r["harness"] in fallback)]
            r2, b2 = kanirun.run_many(redo, workers=workers)
            results += r2
    by = {(r["cfg"], r["harness"]): r for r in results}
    res.extra.setdefault("kani_build_s", {}).update(build_s)
    failing = sorted([r for r in results if r["outcome"] == "FAIL"], key=lambda r: r.get("wall_s") or 1e9)
    replay_budget = {id(r) for r in failing[:int(os.environ.get("VERIF_MAX_REPLAYS", "2"))]}
    for r in sorted(results, key=lambda r: (r["outcome"] == "FAIL", r.get("wall_s") or 0)):
        st = r.get("stats", {})
        item = {"engine": "kani", "harness": r["harness"], "cfg": r["cfg"], "outcome": r["outcome"], "verification_s": st.get("verification_s"),
                "cbmc_checks": st.get("checks"), "cbmc_checks_failed": st.get("checks_failed"),
                "covers_satisfied": "%s/%s" % (st.get("covers_satisfied"), st.get("covers"))}
        res.items.append(item)
        res.queries += 1
        res.extra["cbmc_checks_discharged"] = res.extra.get("cbmc_checks_discharged", 0) + (st.get("checks") or 0)
        res.extra["kani_verification_s_sum"] = round(res.extra.get("kani_verification_s_sum", 0) + (st.get("verification_s") or 0), 1)
        key = "%s[%s]" % (r["harness"], r["cfg"])
        if r["outcome"] == "PASS":
            res.nontrivial += 1
            res.samples.append({"harness": r["harness"], "cfg": r["cfg"], "verdict": "SUCCESSFUL", "cbmc_checks": st.get("checks"),
                                "verification_s": st.get("verification_s")})
            log("  PASS   %-40s %-5s %6.1fs" % (r["harness"], r["cfg"], r.get("wall_s", 0)))
            continue
        if r["outcome"] in ("TIMEOUT", "ERROR", "UNWIND", "BUILD-ERROR", "VACUOUS"):
            msg = "%s: %s" % (key, r["outcome"])
            if r["outcome"] == "VACUOUS":
                msg += " (reachability witness not satisfied: %s of %s covers)" % (st.get("covers_satisfied"), st.get("covers"))
            if r.get("tail"):
                item["tail"] = r["tail"][-1200:]
            res.inconclusive.append(msg)
            log("  INCONCLUSIVE " + msg)
            if r.get("tail"):
                log(r["tail"][-1200:])
            continue
        # FAIL: known finding?
        descs = sorted(set(f["desc"] for f in r["failed"]))
        e = _known_entry(prop, r["harness"], r["cfg"])
        if e and all(any(a in d for a in e.get("allowed_desc", [""])) for d in descs):
            rr = by.get((r["cfg"], e["residual"])) if e.get("residual") else {"outcome": "PASS"}
            if rr and rr["outcome"] == "PASS":
                line = "KNOWN-FINDING: property=%s %s" % (prop, e["text"])
                if line not in res.known:
                    res.known.append(line)
                    print(line, flush=True)
                item["known_finding"] = e["id"]
                res.nontrivial += 1
                continue
        # counter-example extraction + native replay (for the cheapest failing harnesses; the others are listed as failing)
        if id(r) not in replay_budget and any(v["replay"] for v in res.violations):
            item["not_replayed"] = "failed as well; counter-example extraction limited to the cheapest failing harnesses"
            res.extra.setdefault("also_failing", []).append({"harness": r["harness"], "cfg": r["cfg"], "failed_checks": descs})
            log("  FAIL   %s %s (not replayed: a violation of this property is already reproduced)" % (key, descs))
            continue
        log("  FAIL   %s %s -> extracting counter-example" % (key, descs))
        pb = kanirun.run_harness(r["cfg"], r["harness"], timeout=max(1800, 6 * int(r.get("wall_s", 300))), mem_gb=40, playback=True)
        tests = [t for t in pb.get("playback", []) if t["kind"] != "cover"]
        reproduced = False
        recs = []
        for t in tests[:6]:
            nat = kanirun.replay_native(r["cfg"], r["harness"], t["values"])
            res.replayed += 1
            rep = any(v.get("rc") == 10 for v in nat.values())
            rec = {"property": prop, "engine": "kani", "harness": r["harness"], "cfg": r["cfg"], "failed_check": t["desc"],
                   "values": t["values"], "native": nat, "reproduced": rep}
            recs.append(rec)
            if rep:
                reproduced = True
                path = write_replay(prop, rec)
                what = "%s: %s | native: %s" % (key, t["desc"], (nat.get("debug", {}).get("out") or "").strip()[:200])
                if not any(v["what"].startswith(key + ": " + t["desc"]) for v in res.violations):
                    res.violations.append({"what": what, "replay": path})
                    print("VIOLATION property=%s replay=%s" % (prop, path), flush=True)
                    log("    reproduced natively: " + what)
        item["counterexamples"] = [{k: v for k, v in x.items() if k != "values"} for x in recs]
        if not reproduced:
            msg = "%s: solver reported %s but no counter-example reproduced natively (%d tried)" % (key, descs, len(tests))
            res.norepro.append(msg)
            log("  NOT-REPRODUCED " + msg)
    # CBMC statistics sample: one passing harness re-run in regular output mode (the batch runs use the terse format)
    passing = [r for r in results if r["outcome"] == "PASS" and not r.get("residual")]
    if passing and os.environ.get("VERIF_NO_STATS") != "1":
        r = passing[res.seed % len(passing)]
        s1 = kanirun.run_harness(r["cfg"], r["harness"], timeout=900)
        st = s1.get("stats", {})
        res.extra.setdefault("cbmc_stats_sample", []).append({"harness": r["harness"], "cfg": r["cfg"], "outcome": s1["outcome"],
            "program_steps": st.get("steps"), "vccs": st.get("vccs"), "vccs_after_simplification": st.get("vccs_remaining"),
            "sat_variables": st.get("vars"), "sat_clauses": st.get("clauses"), "symex_s": st.get("symex_s"),
            "solver_s": st.get("solver_s"), "sat_calls": st.get("sat_calls"), "stubs_applied": st.get("stubs_applied"),
            "covers": s1.get("covers")})
        res.states += st.get("steps", 0) or 0
        res.transitions += st.get("vccs", 0) or 0
        if s1["outcome"] != r["outcome"]:
            res.inconclusive.append("%s[%s]: batch run said %s, regular-mode re-run said %s" % (r["harness"], r["cfg"], r["outcome"], s1["outcome"]))
    return results
