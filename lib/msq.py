"""The layer-S property queries (C01-S, C02-S, C05, C06, C07-S, C17, C18-S) over mir/relation.py."""
import os, time
import z3

import kflow
from common import REPO, log, scratch
from mir import relation as R
from mir.exec import Executor, State, Agg, EnumV, Opaque
from mir.parse import Unsupported
from mir import parse as P
from mir.summaries import COMMON, compile_table
from ms import *

_rel_cache = {}


def relation(cfg, cap=None):
    key = (cfg, cap)
    if key not in _rel_cache:
        mp = _rel_cache[(cfg, None)].mir_path if (cfg, None) in _rel_cache else None
        _rel_cache[key] = R.build(REPO, cfg, scratch(), mir_path=mp, cap=cap)
    return _rel_cache[key]


def witness_relation(rel):
    """relation used to *search* replayable histories: for the no-alloc build a capacity scaled down from 384 to 3
    (384 = 3 * 128; payload lengths of a model are multiplied by 128 before the replay, which preserves every
    'sum of lengths <= / > capacity' relation)"""
    return relation(rel.cfg, cap=3) if rel.heapless else rel


def site_codes(rel, pred):
    return [c for tag, c in rel.sites.items() if pred(tag)]


def is_decode_site(tag):
    return tag in ("unarmor", "messages::parse")


def rejected_form_chk_seq(rel, st):
    """rejected because of form (layer T), checksum or fragment sequencing / capacity - not because the payload does not decode"""
    dec = site_codes(rel, is_decode_site)
    return z3.Or(st.kind == R.K_ERR_CHECKSUM, z3.And(st.kind == R.K_ERR_NMEA, z3.And(*[st.site != c for c in dec]) if dec else z3.BoolVal(True)))


def history_from_model(model, steps, mode="alpha", scale=1):
    return [step_from_model(model, st, mode, scale) for st in steps]


def replay_history(cfg, hist, fresh=True):
    script = ["N"] + [(h["decode"], h["line"].encode("latin1")) for h in hist]
    outs, path = run_driver(cfg, script)
    return [parse_out(o) for o in outs], path


def report_violation(res, prop, qname, cfg, hist, outs, what):
    rec = {"property": prop, "engine": "M", "query": qname, "cfg": cfg, "history": hist, "real_outputs": outs, "what": what,
           "script": ["N"] + ["L %d %s" % (1 if h["decode"] else 0, h["line"].encode("latin1").hex()) for h in hist]}
    path = kflow.write_replay(prop, rec)
    res.violations.append({"what": "%s[%s]: %s" % (qname, cfg, what), "replay": path})
    print("VIOLATION property=%s replay=%s" % (prop, path), flush=True)
    log("    reproduced on the real library: " + what)


def record(res, ql_item, sample=None):
    res.items.append(ql_item)
    res.queries += 1
    if ql_item["result"] in ("unsat", "sat"):
        res.nontrivial += 1
    if sample is not None and len(res.samples) < 12:
        res.samples.append(sample)


def relation_evidence(res, rel):
    res.extra.setdefault("relations", {})[rel.cfg] = {"paths": rel.stats["paths"], "panic_paths": rel.stats["panic_paths"],
        "mir_lines": rel.stats["mir_lines"], "mir_dump_s": rel.stats["mir_dump_s"], "encode_s": rel.stats["encode_s"],
        "functions_encoded_from_mir": rel.functions_encoded, "callees_summarised": rel.summarised,
        "path_kinds": [R.KIND_NAMES[p["kind_py"]] + (" " + p["note"] if p["note"] else "") for p in rel.paths]}
    res.states += rel.stats["blocks_executed"]
    res.transitions += rel.stats["paths"]


def sanity_paths_exhaustive(res, rel, ql):
    """encoder sanity: the path conditions are exhaustive and pairwise disjoint under the well-formedness assumption"""
    b = rel.base
    t0 = time.time()
    s, r, dt = solve([b.wellformed(rel.heapless), z3.Not(z3.Or(*[p["pc"] for p in rel.paths]))])
    it = ql.add("paths-exhaustive[%s]" % rel.cfg, r, dt)
    record(res, it)
    if r != "unsat":
        res.inconclusive.append("encoder sanity failed: path conditions of AisParser::parse [%s] not exhaustive (%s)" % (rel.cfg, r))
    return r == "unsat"


# ---------------------------------------------------------------- translator validation on concrete runs

def concrete_eval(rel, state, inp):
    """evaluate the merged relation on concrete values; state=(id|None, fn, bytes); inp dict"""
    st = rel.step("_cv")
    v = st.v
    def seq(b):
        e = z3.Empty(R.BYTES)
        for x in b:
            e = z3.Concat(e, z3.Unit(z3.BitVecVal(x, 8))) if len(b) else e
        return e
    sub = [(v.st_id_d, z3.BitVecVal(0 if state[0] is None else 1, 64)), (v.st_id_v, z3.BitVecVal(state[0] or 0, 8)),
           (v.st_fn, z3.BitVecVal(state[1], 8)), (v.st_data, seq(state[2])),
           (v.t_ok, z3.BoolVal(inp["t_ok"])), (v.nf, z3.BitVecVal(inp["nf"], 8)), (v.fn, z3.BitVecVal(inp["fn"], 8)),
           (v.id_d, z3.BitVecVal(0 if inp["id"] is None else 1, 64)), (v.id_v, z3.BitVecVal(inp["id"] or 0, 8)),
           (v.data, seq(inp["data"])), (v.fill, z3.BitVecVal(inp["fill"], 8)), (v.mt, z3.BitVecVal(0, 8)),
           (v.chk, z3.BitVecVal(inp["chk"], 8)), (v.xor, z3.BitVecVal(inp["xor"], 8)), (v.decode, z3.BoolVal(False))]
    ev = lambda e: z3.simplify(z3.substitute(e, *sub))
    kind = ev(st.kind).as_long()
    pid_d = ev(st.post_id_d).as_long()
    post = (ev(st.post_id_v).as_long() if pid_d == 1 else None, ev(st.post_fn).as_long(), seq_value(ev(st.post_data)))
    out = {"kind": kind}
    if kind in (R.K_COMPLETE, R.K_INCOMPLETE):
        out.update({"nf": ev(st.o_nf).as_long(), "fn": ev(st.o_fn).as_long(), "data": seq_value(ev(st.o_data)),
                    "id": ev(st.o_id_v).as_long() if ev(st.o_id_d).as_long() == 1 else None})
    return out, post


def seq_value(e):
    """bytes of a concrete z3 sequence term"""
    out = []
    def walk(t):
        if z3.is_app(t) and t.decl().kind() == z3.Z3_OP_SEQ_CONCAT:
            for c in t.children():
                walk(c)
        elif z3.is_app(t) and t.decl().kind() == z3.Z3_OP_SEQ_UNIT:
            out.append(t.children()[0].as_long())
        elif z3.is_app(t) and t.decl().kind() == z3.Z3_OP_SEQ_EMPTY:
            pass
        else:
            raise Unsupported("non-concrete sequence %s" % t)
    walk(e)
    return bytes(out)


def py_fields(line):
    """reference field extraction for *well-formed* sentences (validation corpus only)"""
    try:
        s = line.decode("latin1")
        if s[0] == "\\":
            s = s[s.index("\\", 1) + 1:]
        if s[0] not in "!$":
            return None
        body, cs = s[1:].split("*", 1)
        f = body.split(",")
        if len(f) != 7:
            return None
        x = 0
        for ch in body.encode("latin1"):
            x ^= ch
        return {"t_ok": True, "nf": int(f[1]), "fn": int(f[2]), "id": int(f[3]) if f[3] else None, "data": f[5].encode("latin1"),
                "fill": int(f[6]), "chk": int(cs[:2], 16), "xor": x}
    except Exception:
        return None


def corpus(seed):
    import random
    rnd = random.Random(seed)
    lines = [b"!AIVDM,1,1,,B,E>kb9O9aS@7PUh10dh19@;0Tah2cWrfP:l?M`00003vP100,0*01", b"!AIVDM,1,1,,A,403OtVAv6s5l1o?I``E`4I?02<34,0*21",
             b"!AIVDM,2,1,1,B,53`soB8000010KSOW<0P4eDp4l6000000000000U0p<24t@P05H3S833CDP00000,0*78", b"!AIVDM,2,2,1,B,0000000,2*26",
             b"!AIVDM,1,1,,A,E>kb9I99S@0`8@:9ah;0TahI7@@;V4=v:nv;h00003vP100,0*8D"]
    seqs = [lines]
    for _ in range(40):
        h = []
        for _ in range(rnd.randint(2, 7)):
            nf = rnd.choice([1, 2, 2, 3, 3, 4, 9])
            fn = rnd.choice([1, 1, 2, 2, 3, nf, rnd.randint(0, 10)])
            mid = rnd.choice([None, 1, 1, 2, 7])
            data = "".join(chr(rnd.choice(ALPHABET)) for _ in range(rnd.randint(1, 4)))
            h.append(nmea_line(nf, fn, mid, data, rnd.randint(0, 5), rnd.random() > 0.1))
        seqs.append(h)
    return seqs


def translator_validation(res, rel, ql, seed):
    """Serval-style: concrete line sequences through the real AisParser and through the encoding must agree"""
    t0 = time.time()
    n_lines = n_bad = 0
    for h in corpus(seed):
        outs, _ = run_driver(rel.cfg, ["N"] + [(False, l) for l in h])
        state = (None, 0, b"")
        for line, o in zip(h, outs):
            f = py_fields(line)
            if f is None:
                break
            real = parse_out(o)
            if real["kind"] == "P":
                break      # the real parser panicked: its state is undefined from here on (C01's business)
            enc, state = concrete_eval(rel, state, f)
            n_lines += 1
            rk = {"C": R.K_COMPLETE, "I": R.K_INCOMPLETE}.get(real["kind"]) if real["kind"] in "CI" else (
                R.K_ERR_CHECKSUM if real.get("sub") == "checksum" else R.K_ERR_NMEA)
            agree = rk == enc["kind"] and (real["kind"] not in "CI" or (real["data"] == enc["data"] and real["nf"] == enc["nf"] and real["fn"] == enc["fn"] and real["id"] == enc["id"]))
            if not agree:
                n_bad += 1
                res.norepro.append("translator validation: encoding and real parser disagree on %r: real %s, encoding %s" % (line, real, enc))
                break
    it = ql.add("translator-validation[%s]" % rel.cfg, "agree" if n_bad == 0 else "DISAGREE", time.time() - t0, lines=n_lines)
    res.items.append(it)
    res.replayed += n_lines
    return n_bad == 0


# ---------------------------------------------------------------- deep histories: backward reconstruction from a target state

def _state_of_model(m, v):
    g = lambda e: m.eval(e, model_completion=True)
    idd = g(v.st_id_d).as_long()
    return {"id": g(v.st_id_v).as_long() if idd == 1 else None, "fn": g(v.st_fn).as_long(), "data": bytes(seq_bytes(m, v.st_data))}


def _seq_const(b):
    e = z3.Empty(R.BYTES)
    for x in b:
        e = z3.Concat(e, z3.Unit(z3.BitVecVal(x, 8)))
    return e


def canonical_histories(target):
    """candidate histories that drive the fragment counter to target['fn'] (the sequence solver cannot construct hundreds of
    payload bytes, so the candidates are built directly and *evaluated* through the relation): a group of F one-byte fragments
    with the target's id, left open (declared count F+1) or delivered (declared count F)."""
    F, mid = target["fn"], target["id"]
    cands = []
    if 1 <= F <= 255:
        for nf in ([F + 1] if F < 255 else []) + [F]:
            cands.append([{"t_ok": True, "nf": nf, "fn": k, "id": mid, "data": b"0", "fill": 0, "chk": 0, "xor": 0} for k in range(1, F + 1)])
    cands.append([])
    return cands


def history_to_state(rel, target, ql, res, max_steps=700):
    """a concrete history (list of step dicts) that drives a fresh parser into a state with the target's sequence id and
    fragment number; returns (history, reached state) or (None, None).  Candidates are evaluated concretely through the relation."""
    t0 = time.time()
    for cand in canonical_histories(target):
        state = (None, 0, b"")
        ok = True
        for f in cand:
            out, state = concrete_eval(rel, state, f)
            if out["kind"] not in (R.K_COMPLETE, R.K_INCOMPLETE):
                ok = False
                break
        if ok and state[0] == target["id"] and state[1] == target["fn"]:
            hist = [{"t_ok": True, "nf": f["nf"], "fn": f["fn"], "id": f["id"], "data": f["data"].decode("latin1"), "fill": 0, "good_checksum": True, "decode": False,
                     "line": nmea_line(f["nf"], f["fn"], f["id"], f["data"].decode("latin1"), 0).decode("latin1")} for f in cand]
            ql.add("canonical-history(%d lines) reaches fragment counter %d[%s]" % (len(hist), target["fn"], rel.cfg), "found", time.time() - t0)
            return hist, {"id": state[0], "fn": state[1], "data": state[2]}
    ql.add("canonical-history to fragment counter %d[%s]" % (target["fn"], rel.cfg), "none", time.time() - t0)
    return None, None


# ---------------------------------------------------------------- C01-S: no panic edge reachable

def q_no_panic(res, rel, ql, k_bmc=3):
    prop = res.prop
    st = rel.step("_p")
    s, r, dt = solve([st.wf, st.kind == R.K_PANIC])
    it = ql.add("panic-unreachable-from-any-state[%s]" % rel.cfg, r, dt)
    record(res, it, {"query": it["query"], "meaning": "one step of AisParser::parse from an arbitrary parser state on an arbitrary accepted sentence reaches no MIR assert failure / unreachable"})
    if r == "unsat":
        return True
    if r != "sat":
        res.inconclusive.append(it["query"] + ": " + r)
        return False
    # find a real history from a fresh parser
    for k in range(1, k_bmc + 1):
        steps, cons = chain(rel, k, True, maxlen=2, decode_mode="off")
        s, r2, dt = solve(cons + [steps[-1].kind == R.K_PANIC] + [st_.kind != R.K_PANIC for st_ in steps[:-1]])
        it = ql.add("panic-bmc-k%d[%s]" % (k, rel.cfg), r2, dt)
        record(res, it)
        if r2 == "sat":
            hist = history_from_model(s.model(), steps)
            outs, path = replay_history(rel.cfg, hist)
            res.replayed += 1
            if any(o["kind"] == "P" for o in outs):
                report_violation(res, prop, it["query"], rel.cfg, hist, outs, "panic on history %s: %s" % (
                    [h["line"] for h in hist], next(o["msg"] for o in outs if o["kind"] == "P")))
            else:
                res.norepro.append("%s: model history %s did not panic on the real library (%s)" % (it["query"], [h["line"] for h in hist], outs))
            return False
    # deep history: take a panicking (state, line) pair - preferring small states -, construct a canonical history that
    # reaches the state's (id, fragment number), then ask for the panicking line from the state actually reached
    for pref in ([z3.Length(st.v.st_data) == 0], [z3.Length(st.v.st_data) <= 4], []):
        s, r3, dt = solve([st.wf, st.kind == R.K_PANIC, z3.Not(st.v.decode)] + pref, timeout_s=60)
        if r3 != "sat":
            continue
        target = _state_of_model(s.model(), st.v)
        hist, reached = history_to_state(rel, target, ql, res)
        if hist is None:
            continue
        st2 = rel.step("_pd")
        v2 = st2.v
        fix = [v2.st_id_d == (0 if reached["id"] is None else 1), v2.st_id_v == (reached["id"] or 0), v2.st_fn == reached["fn"], v2.st_data == _seq_const(reached["data"])]
        s2, r4, dt = solve([st2.wf, st2.kind == R.K_PANIC, z3.Not(v2.decode), z3.Length(v2.data) <= 2] + fix, timeout_s=60)
        it = ql.add("panic-from-reached-state[%s]" % rel.cfg, r4, dt)
        record(res, it)
        if r4 != "sat":
            continue
        hist = hist + [step_from_model(s2.model(), st2, "alpha", rel.scale)]
        outs, path = replay_history(rel.cfg, hist)
        res.replayed += 1
        if any(o["kind"] == "P" for o in outs):
            short = ([h["line"] for h in hist[:2]] + ["... %d more lines ..." % (len(hist) - 3)] + [hist[-1]["line"]]) if len(hist) > 4 else [h["line"] for h in hist]
            slim = hist if len(hist) <= 12 else hist[:3] + [{"elided_lines": len(hist) - 6, "pattern": "fragments 4..%d of the same group, one payload byte each" % (len(hist) - 4)}] + hist[-3:]
            rec_outs = outs if len(outs) <= 12 else outs[:3] + outs[-3:]
            report_violation(res, prop, "panic-deep-history[%s]" % rel.cfg, rel.cfg, hist, rec_outs, "panic after a history of %d lines %s: %s" % (
                len(hist), short, next(o["msg"] for o in outs if o["kind"] == "P")))
            return False
        res.norepro.append("panic-deep-history[%s]: constructed history of %d lines did not panic on the real library" % (rel.cfg, len(hist)))
        return False
    res.inconclusive.append("panic reachable from some parser state [%s] but no history from a fresh parser found (BMC %d steps, backward reconstruction stuck)" % (rel.cfg, k_bmc))
    return False


# ---------------------------------------------------------------- C02-S: the checksum gate comes first

def q_checksum_gate(res, rel, ql):
    st = rel.step("_c")
    v = st.v
    bad1 = z3.And(v.t_ok, v.chk != v.xor, z3.Not(z3.And(st.kind == R.K_ERR_CHECKSUM, st.e_expected == v.chk, st.e_found == v.xor, state_eq_pre_post(st))))
    bad2 = z3.And(v.t_ok, v.chk == v.xor, st.kind == R.K_ERR_CHECKSUM)
    bad3 = z3.And(z3.Not(v.t_ok), z3.Not(z3.And(st.kind == R.K_ERR_NMEA, state_eq_pre_post(st))))
    ok = True
    for name, c, meaning in (("mismatch=>checksum-error,state-kept", bad1, "checksum mismatch => Err(Checksum{expected: transmitted, found: computed}) and parser state unchanged"),
                             ("match=>no-checksum-error", bad2, "matching checksum never yields a checksum error"),
                             ("form-reject=>error,state-kept", bad3, "a line rejected by the sentence parser yields an error and leaves the state unchanged")):
        s, r, dt = solve([st.wf, c])
        it = ql.add("gate:%s[%s]" % (name, rel.cfg), r, dt)
        record(res, it, {"query": it["query"], "meaning": meaning})
        if r == "sat":
            m = s.model()
            hist = history_from_model(m, [st])
            res.norepro.append("%s: SAT (%s) - layer-S gate violated in the encoding; model %s" % (it["query"], meaning, hist))
            ok = False
        elif r != "unsat":
            res.inconclusive.append(it["query"] + ": " + r)
            ok = False
    return ok


# ---------------------------------------------------------------- C17: rejected / unfragmented lines leave no trace

def q_no_trace(res, rel, ql, k_bmc=4):
    prop = res.prop
    st = rel.step("_t")
    v = st.v
    unfrag = z3.And(v.t_ok, v.chk == v.xor, v.nf == 1)
    cond = z3.And(z3.Or(rejected_form_chk_seq(rel, st), unfrag), st.kind != R.K_PANIC)
    s, r, dt = solve([st.wf, cond, z3.Not(state_eq_pre_post(st))], timeout_s=30)
    it = ql.add("no-trace-one-step[%s]" % rel.cfg, r, dt)
    record(res, it, {"query": it["query"], "meaning": "from an arbitrary state, a line rejected for form / checksum / sequencing / capacity or an unfragmented sentence leaves all three state fields unchanged"})
    if r == "unsat":
        return True
    if r != "sat":
        # the sequence solver can be slow at *constructing* long payloads; ask the capacity-scaled relation whether a
        # trace exists at all (SAT there leads to the witness search below, whose result is replayed on the real library)
        w = witness_relation(rel)
        st2 = w.step("_t2")
        v2 = st2.v
        cond2 = z3.And(z3.Or(rejected_form_chk_seq(w, st2), z3.And(v2.t_ok, v2.chk == v2.xor, v2.nf == 1)), st2.kind != R.K_PANIC)
        s, r2, dt = solve([st2.wf, cond2, z3.Not(state_eq_pre_post(st2))], timeout_s=30)
        it = ql.add("no-trace-one-step(capacity scaled 384->3)[%s]" % rel.cfg, r2, dt)
        record(res, it)
        if r2 != "sat":
            res.inconclusive.append("no-trace-one-step[%s]: %s (scaled relation: %s)" % (rel.cfg, r, r2))
            return False
    # observable, replayable difference: run A (k steps) vs run B (step j removed)
    wrel = witness_relation(rel)
    for k in range(2, k_bmc + 1):
        for j in range(k - 1):
            A, ca = chain(wrel, k, True, maxlen=3, decode_mode="off")
            B = [wrel.step("_b%d" % (i + 1)) for i in range(k - 1)]
            cb = []
            idx = [i for i in range(k) if i != j]
            for bi, ai in enumerate(idx):
                vb, va = B[bi].v, A[ai].v
                cb += [vb.t_ok == va.t_ok, vb.nf == va.nf, vb.fn == va.fn, vb.id_d == va.id_d, vb.id_v == va.id_v, vb.data == va.data,
                       vb.fill == va.fill, vb.mt == va.mt, vb.chk == va.chk, vb.xor == va.xor, vb.decode == va.decode]
                if bi == 0:
                    cb += [vb.st_id_d == 0, vb.st_fn == 0, z3.Length(vb.st_data) == 0]
                else:
                    p = B[bi - 1]
                    cb += [vb.st_id_d == p.post_id_d, z3.Or(vb.st_id_d == 0, vb.st_id_v == p.post_id_v), vb.st_fn == p.post_fn, vb.st_data == p.post_data]
            aj = A[j]
            condj = z3.Or(rejected_form_chk_seq(wrel, aj), z3.And(aj.v.t_ok, aj.v.chk == aj.v.xor, aj.v.nf == 1))
            diffs = []
            for bi, ai in enumerate(idx):
                a, b_ = A[ai], B[bi]
                diffs.append(z3.Or(a.kind != b_.kind, z3.And(accepted(a), z3.Or(a.o_data != b_.o_data, a.o_fn != b_.o_fn, a.o_nf != b_.o_nf))))
            nopanic = [x.kind != R.K_PANIC for x in A]
            extra = []
            s2, r2, dt2 = solve(ca + cb + [condj, z3.Or(*diffs)] + nopanic + extra, timeout_s=120)
            it = ql.add("no-trace-bmc-k%d-remove%d[%s]" % (k, j + 1, rel.cfg), r2, dt2)
            record(res, it)
            if r2 == "sat":
                m = s2.model()
                hist = history_from_model(m, A, scale=wrel.scale)
                outs, path = replay_history(rel.cfg, hist)
                hist2 = [h for i, h in enumerate(hist) if i != j]
                outs2, _ = replay_history(rel.cfg, hist2)
                res.replayed += 2
                what = monitor_c17(hist, outs, hist2, outs2, j)
                if what:
                    report_violation(res, prop, it["query"], rel.cfg, hist, outs, what)
                else:
                    res.norepro.append("%s: model history did not show a trace on the real library: %s -> %s / %s" % (it["query"], [h["line"] for h in hist], outs, outs2))
                return False
    res.inconclusive.append("state changed by a rejected/unfragmented line from some state [%s], but no observable difference found within %d steps from a fresh parser" % (rel.cfg, k_bmc))
    return False


# ---------------------------------------------------------------- C05: in-order fragments reassemble (inductive)

def q_reassembly(res, rel, ql):
    prop = res.prop
    ok = True
    cap_ok = lambda st: (z3.Length(st.v.st_data) + z3.Length(st.v.data) <= 384) if rel.heapless else z3.BoolVal(True)
    # base: a first fragment from ANY state opens the group
    st = rel.step("_b")
    v = st.v
    first = z3.And(v.t_ok, v.chk == v.xor, z3.UGE(v.nf, 2), v.fn == 1)
    good = z3.And(st.kind == R.K_INCOMPLETE, st.o_nf == v.nf, st.o_fn == v.fn, opt_eq(st.o_id_d, st.o_id_v, v.id_d, v.id_v), st.o_data == v.data,
                  st.o_fill == v.fill, st.o_mt == v.mt, z3.Not(st.o_msg_some), st.o_passthru,
                  opt_eq(st.post_id_d, st.post_id_v, v.id_d, v.id_v), st.post_fn == 1, st.post_data == v.data)
    s, r, dt = solve([st.wf, first, z3.Not(good)])
    it = ql.add("reassembly-base(first fragment from any state)[%s]" % rel.cfg, r, dt)
    record(res, it, {"query": it["query"], "meaning": "fragment 1 of n>=2 from an arbitrary parser state => Incomplete carrying the fragment's own fields; state = (id, 1, payload)"})
    if r != "unsat":
        ok = False
        _c05_witness(res, rel, ql, it, r)
    # step: state == (gid, last, cat), fragment last+1 with the same id
    st = rel.step("_s")
    v = st.v
    cont = z3.And(v.t_ok, v.chk == v.xor, z3.UGE(v.st_fn, 1), v.fn == v.st_fn + 1, z3.ULT(v.st_fn, 255), z3.UGE(v.nf, v.fn),
                  opt_eq(v.st_id_d, v.st_id_v, v.id_d, v.id_v), cap_ok(st))
    cat = z3.Concat(v.st_data, v.data)
    mid = z3.And(st.kind == R.K_INCOMPLETE, st.o_nf == v.nf, st.o_fn == v.fn, opt_eq(st.o_id_d, st.o_id_v, v.id_d, v.id_v), st.o_data == v.data,
                 st.o_fill == v.fill, z3.Not(st.o_msg_some), st.o_passthru,
                 opt_eq(st.post_id_d, st.post_id_v, v.id_d, v.id_v), st.post_fn == v.fn, st.post_data == cat)
    fill64 = z3.ZeroExt(56, v.fill)
    dec_ok = z3.And(R.F_UNARMOR_OK(cat, fill64), R.F_MSG_OK(R.F_UNARMOR(cat, fill64)))
    last_fields = z3.And(st.o_nf == v.nf, st.o_fn == v.fn, opt_eq(st.o_id_d, st.o_id_v, v.id_d, v.id_v), st.o_data == cat, st.o_fill == v.fill, st.o_passthru)
    last = z3.If(v.decode,
                 z3.If(dec_ok, z3.And(st.kind == R.K_COMPLETE, last_fields, st.o_msg_some, st.o_msg == R.F_MSG(R.F_UNARMOR(cat, fill64))),
                       st.kind == R.K_ERR_NMEA),
                 z3.And(st.kind == R.K_COMPLETE, last_fields, z3.Not(st.o_msg_some)))
    good = z3.If(z3.ULT(v.fn, v.nf), mid, last)
    s, r, dt = solve([st.wf, cont, z3.Not(good)])
    it = ql.add("reassembly-step(fragment k+1 after k)[%s]" % rel.cfg, r, dt)
    record(res, it, {"query": it["query"], "meaning": "from state (id, k, concat) fragment k+1 (same id): k+1<n => Incomplete, state (id, k+1, concat++payload); k+1=n => exactly the result of the unfragmented sentence with payload concat++payload and this fill (same uninterpreted unarmor/parse terms)"})
    if r != "unsat":
        ok = False
        _c05_witness(res, rel, ql, it, r)
    # unfragmented reference: the same uninterpreted terms
    st = rel.step("_u")
    v = st.v
    fill64 = z3.ZeroExt(56, v.fill)
    dec_ok = z3.And(R.F_UNARMOR_OK(v.data, fill64), R.F_MSG_OK(R.F_UNARMOR(v.data, fill64)))
    un = z3.And(v.t_ok, v.chk == v.xor, v.nf == 1, v.fn == 1)
    fields = z3.And(st.o_nf == v.nf, st.o_fn == v.fn, opt_eq(st.o_id_d, st.o_id_v, v.id_d, v.id_v), st.o_data == v.data, st.o_fill == v.fill, st.o_passthru)
    good = z3.If(v.decode, z3.If(dec_ok, z3.And(st.kind == R.K_COMPLETE, fields, st.o_msg_some, st.o_msg == R.F_MSG(R.F_UNARMOR(v.data, fill64))), st.kind == R.K_ERR_NMEA),
                 z3.And(st.kind == R.K_COMPLETE, fields, z3.Not(st.o_msg_some)))
    s, r, dt = solve([st.wf, un, z3.Not(good)])
    it = ql.add("unfragmented-reference[%s]" % rel.cfg, r, dt)
    record(res, it, {"query": it["query"], "meaning": "an unfragmented sentence yields Complete(payload, message = parse(unarmor(payload, fill))) or the decode error"})
    if r != "unsat":
        ok = False
        res.norepro.append(it["query"] + ": " + r)
    return ok


def _c05_witness(res, rel, ql, it, r):
    """a failed inductive reassembly query: look for a real history (fresh parser, abandoned group, completed group prefixes)"""
    if r != "sat":
        res.inconclusive.append(it["query"] + ": " + r)
        return
    prop = res.prop
    for k in range(2, 6):
        for npre in range(0, 3):
            steps, cons = chain(rel, npre + k, True, maxlen=2, decode_mode="off")
            g = steps[npre:]
            cons2 = []
            for j, st in enumerate(g):
                v = st.v
                cons2 += [v.t_ok, v.chk == v.xor, v.nf == k, v.fn == j + 1, opt_eq(v.id_d, v.id_v, g[0].v.id_d, g[0].v.id_v)]
            bad = []
            cat = z3.Empty(R.BYTES)
            for j, st in enumerate(g):
                cat = z3.Concat(cat, st.v.data)
                if j < k - 1:
                    bad.append(z3.Not(z3.And(st.kind == R.K_INCOMPLETE, st.o_data == st.v.data)))
                else:
                    bad.append(z3.Not(z3.And(st.kind == R.K_COMPLETE, st.o_data == cat)))
            s, r2, dt = solve(cons + cons2 + [z3.Or(*bad)] + [x.kind != R.K_PANIC for x in steps], timeout_s=120)
            it2 = ql.add("reassembly-bmc-pre%d-n%d[%s]" % (npre, k, rel.cfg), r2, dt)
            record(res, it2)
            if r2 == "sat":
                hist = history_from_model(s.model(), steps)
                outs, path = replay_history(rel.cfg, hist)
                res.replayed += 1
                what = monitor_c05(hist, outs, [i >= npre for i in range(len(hist))])
                if what:
                    report_violation(res, prop, it2["query"], rel.cfg, hist, outs, what)
                else:
                    res.norepro.append("%s: model history reassembled correctly on the real library: %s -> %s" % (it2["query"], [h["line"] for h in hist], outs))
                return
    res.inconclusive.append(it["query"] + ": inductive query SAT but no history from a fresh parser found within the BMC bound")


def q_from_impls(res, rel, ql):
    """From<AisFragments> for Option<AisSentence> / Result<AisSentence>: the sentence exactly for Complete"""
    funcs = P.parse_mir(open(rel.mir_path).read())
    enums, structs = P.scan_source_types(os.path.join(REPO, "src"))
    ex = Executor(funcs, enums, structs, compile_table(COMMON))
    t0 = time.time()
    S = Agg([Opaque("f%d" % i) for i in range(10)], "AisSentence")
    problems = []
    n = 0
    for name, fn in funcs.items():
        if name.endswith("::from") and fn.args and fn.args[0][1].strip() == "AisFragments":
            n += 1
            want = "Option" if "Option" in fn.ret else "Result"
            for disc in (0, 1):
                st = State()
                outs = ex.run(fn, [EnumV("AisFragments", disc, {disc: [S]})], st)
                if len(outs) != 1 or outs[0].panic is not None:
                    problems.append("%s disc %d: %d outcomes / panic" % (name, disc, len(outs)))
                    continue
                r = outs[0].ret
                if want == "Option":
                    good = (disc == 0 and r.disc == 1 and r.payloads[1][0] is S) or (disc == 1 and r.disc == 0)
                else:
                    good = (disc == 0 and r.disc == 0 and r.payloads[0][0] is S) or (disc == 1 and r.disc == 1)
                if not good:
                    problems.append("%s on %s gives %r" % (name, "Complete" if disc == 0 else "Incomplete", r))
    if n != 2:
        problems.append("expected two From<AisFragments> impls, found %d" % n)
    it = ql.add("From<AisFragments>-conversions[%s]" % rel.cfg, "unsat" if not problems else "sat", time.time() - t0, impls=n)
    record(res, it, {"query": it["query"], "meaning": "symbolic execution of both From impls: Complete(s) -> Some(s)/Ok(s) with s untouched, Incomplete -> None/Err"})
    if problems:
        # concrete and deterministic: replay natively through the driver is not needed - report as violation with the description
        rec = {"property": res.prop, "engine": "M", "query": it["query"], "cfg": rel.cfg, "what": "; ".join(problems), "history": [], "script": []}
        path = kflow.write_replay(res.prop, rec)
        res.norepro.append("From<AisFragments> conversion deviates in the encoding: %s" % problems)
    return not problems


# ---------------------------------------------------------------- C06: only complete in-order groups deliver

def q_only_groups(res, rel, ql, k_bmc=5, modes=("off", "zero")):
    prop = res.prop
    ok = True
    real_cfg = rel.cfg
    # bounded histories of the no-alloc build run on the capacity-scaled relation (384 -> 3, payloads <= 3 bytes), so that
    # over-capacity fragments occur inside the bound; witnesses are scaled back (x128) for the replay
    rel = witness_relation(rel)
    for mode in modes:
        found = False
        for k in range(1, k_bmc + 1):
            steps, cons = chain(rel, k, True, maxlen=3 if rel.heapless else 2, decode_mode="off" if mode == "off" else "zero")
            mon_open, gid_d, gid_v, last, cat = z3.BoolVal(False), z3.BitVecVal(0, 64), z3.BitVecVal(0, 8), z3.BitVecVal(0, 8), z3.Empty(R.BYTES)
            bad = []
            for st in steps:
                v = st.v
                cons.append(z3.Implies(v.t_ok, z3.And(z3.UGE(v.fn, 1), z3.ULE(v.fn, v.nf))))
                acc = accepted(st)
                contin = z3.And(mon_open, opt_eq(gid_d, gid_v, v.id_d, v.id_v), last == v.fn - 1)
                bad.append(z3.And(acc, z3.UGE(v.fn, 2), z3.Not(contin)))
                bad.append(z3.And(st.kind == R.K_COMPLETE, z3.UGE(v.nf, 2), st.o_data != z3.Concat(cat, v.data)))
                opens = z3.And(acc, z3.UGE(v.nf, 2), v.fn == 1)
                conts = z3.And(acc, z3.UGE(v.fn, 2))
                n_open = z3.If(opens, z3.BoolVal(True), z3.If(conts, st.kind != R.K_COMPLETE, mon_open))
                n_gid_d = z3.If(opens, v.id_d, gid_d)
                n_gid_v = z3.If(opens, v.id_v, gid_v)
                n_last = z3.If(opens, z3.BitVecVal(1, 8), z3.If(conts, v.fn, last))
                n_cat = z3.If(opens, v.data, z3.If(conts, z3.Concat(cat, v.data), cat))
                mon_open, gid_d, gid_v, last, cat = n_open, n_gid_d, n_gid_v, n_last, n_cat
            extra = []
            s, r, dt = solve(cons + extra + [z3.Or(*bad)] + [x.kind != R.K_PANIC for x in steps], timeout_s=300)
            it = ql.add("only-groups-bmc-k%d-decode-%s[%s]" % (k, "off" if mode == "off" else "on(all payloads undecodable)", rel.cfg), r, dt)
            record(res, it, {"query": it["query"], "meaning": "histories of %d validly numbered sentences / rejected lines from a fresh parser vs. the specification's group monitor" % k} if k == k_bmc else None)
            if r == "sat":
                hist = history_from_model(s.model(), steps, mode="zero" if mode == "zero" else "alpha", scale=rel.scale)
                outs, path = replay_history(rel.cfg, hist)
                res.replayed += 1
                what = monitor_c06(hist, outs)
                if what:
                    report_violation(res, prop, it["query"], rel.cfg, hist, outs, what)
                else:
                    res.norepro.append("%s: model history behaved correctly on the real library: %s -> %s" % (it["query"], [h["line"] for h in hist], outs))
                ok = False
                found = True
                break
            if r != "unsat":
                res.inconclusive.append(it["query"] + ": " + r)
                ok = False
                break
        if found:
            break
    return ok


def q_only_groups_inductive(res, rel, ql):
    """unbounded histories: Inv(state, monitor) := open => state == (gid, last, cat) and last >= 1;  not open => state.fn == 0 and state.id == None
    (both hold for a fresh parser); one arbitrary step preserves Inv and never accepts a non-continuation."""
    st = rel.step("_i")
    v = st.v
    mo = z3.Bool("mon_open")
    gd, gv, ml = z3.BitVec("mon_gid_d", 64), z3.BitVec("mon_gid_v", 8), z3.BitVec("mon_last", 8)
    mc = z3.Const("mon_cat", R.BYTES)
    valid = z3.Implies(v.t_ok, z3.And(z3.UGE(v.fn, 1), z3.ULE(v.fn, v.nf)))
    acc = accepted(st)
    contin = z3.And(mo, opt_eq(gd, gv, v.id_d, v.id_v), ml == v.fn - 1)
    bad_accept = z3.And(acc, z3.UGE(v.fn, 2), z3.Not(contin))
    bad_data = z3.And(st.kind == R.K_COMPLETE, z3.UGE(v.nf, 2), st.o_data != z3.Concat(mc, v.data))
    opens = z3.And(acc, z3.UGE(v.nf, 2), v.fn == 1)
    conts = z3.And(acc, z3.UGE(v.fn, 2))
    # delivery attempts that fail to decode consume the group as well (the monitor closes it): the group is used once
    consumed = z3.And(st.kind == R.K_ERR_NMEA, z3.Or(*[st.site == c for c in site_codes(rel, is_decode_site)]) if site_codes(rel, is_decode_site) else z3.BoolVal(False),
                      z3.UGE(v.nf, 2))
    n_open = z3.If(opens, z3.BoolVal(True), z3.If(conts, st.kind != R.K_COMPLETE, z3.If(consumed, z3.BoolVal(False), mo)))
    n_gd, n_gv = z3.If(opens, v.id_d, gd), z3.If(opens, v.id_v, gv)
    n_last = z3.If(opens, z3.BitVecVal(1, 8), z3.If(conts, v.fn, ml))
    n_cat = z3.If(opens, v.data, z3.If(conts, z3.Concat(mc, v.data), mc))
    cap = [z3.Length(mc) + z3.Length(v.data) <= 384] if rel.heapless else []
    # the closed state is a representation choice of the implementation: candidates, from the exact one of this code base to
    # weaker ones (each holds for a fresh parser); the first that is inductive establishes the unbounded claim
    closed_candidates = [("closed = (no id, number 0)", lambda sid_d, sfn: z3.And(sfn == 0, sid_d == 0)),
                         ("closed = (number 0)", lambda sid_d, sfn: sfn == 0)]
    r, s, dt_all, used = "unknown", None, 0.0, None
    for cname, closed in closed_candidates:
        def inv(open_, gid_d, gid_v, last, cat, sid_d, sid_v, sfn, sdata):
            return z3.And(z3.Or(gid_d == 0, gid_d == 1),
                          z3.If(open_, z3.And(opt_eq(sid_d, sid_v, gid_d, gid_v), sfn == last, z3.UGE(last, 1), sdata == cat),
                                closed(sid_d, sfn)))
        pre = inv(mo, gd, gv, ml, mc, v.st_id_d, v.st_id_v, v.st_fn, v.st_data)
        post = inv(n_open, n_gd, n_gv, n_last, n_cat, st.post_id_d, st.post_id_v, st.post_fn, st.post_data)
        s, r, dt = solve([st.wf, pre, valid, st.kind != R.K_PANIC] + cap + [z3.Or(bad_accept, bad_data, z3.Not(post))], timeout_s=300)
        dt_all += dt
        used = cname
        if r == "unsat":
            break
    it = ql.add("only-groups-inductive-step[%s]" % rel.cfg, r, dt_all)
    record(res, it, {"query": it["query"], "closed_state_invariant": used, "meaning": "Inv(parser state, group monitor) holds for a fresh parser and is preserved by every step; under Inv no non-continuation is accepted and every delivered payload is the monitor's concatenation => histories of any length"})
    if r == "sat":
        m = s.model()
        res.extra.setdefault("inductive_counterexamples", []).append({"query": it["query"], "pre_open": str(m.eval(mo)), "state_fn": str(m.eval(v.st_fn)),
            "input": step_from_model(m, st, "alpha"), "note": "pre-state may be unreachable; the bounded query from a fresh parser decides violations"})
    return r


# ---------------------------------------------------------------- C07-S: decode flag changes only `message`; fields are the transmitted ones

def q_decode_flag(res, rel, ql):
    a, b = rel.step("_x"), rel.step("_y")
    va, vb = a.v, b.v
    same = [va.st_id_d == vb.st_id_d, va.st_id_v == vb.st_id_v, va.st_fn == vb.st_fn, va.st_data == vb.st_data, va.t_ok == vb.t_ok,
            va.nf == vb.nf, va.fn == vb.fn, va.id_d == vb.id_d, va.id_v == vb.id_v, va.data == vb.data, va.fill == vb.fill, va.mt == vb.mt,
            va.chk == vb.chk, va.xor == vb.xor, z3.Not(va.decode), vb.decode]
    dec_sites = site_codes(rel, is_decode_site)
    is_dec_err = lambda st: z3.And(st.kind == R.K_ERR_NMEA, z3.Or(*[st.site == c for c in dec_sites])) if dec_sites else z3.BoolVal(False)
    post_eq = z3.And(opt_eq(a.post_id_d, a.post_id_v, b.post_id_d, b.post_id_v), a.post_fn == b.post_fn, a.post_data == b.post_data)
    fields_eq = z3.And(a.o_nf == b.o_nf, a.o_fn == b.o_fn, opt_eq(a.o_id_d, a.o_id_v, b.o_id_d, b.o_id_v), a.o_data == b.o_data, a.o_fill == b.o_fill,
                       a.o_mt == b.o_mt, a.o_passthru, b.o_passthru)
    good = z3.And(post_eq,
                  z3.Not(is_dec_err(a)), z3.Implies(accepted(a), z3.Not(a.o_msg_some)),
                  z3.Or(z3.And(a.kind == b.kind, z3.Implies(accepted(a), fields_eq)), z3.And(a.kind == R.K_COMPLETE, is_dec_err(b))),
                  z3.Implies(z3.And(b.kind == R.K_COMPLETE), b.o_msg_some), z3.Implies(b.kind == R.K_INCOMPLETE, z3.Not(b.o_msg_some)))
    s, r, dt = solve([a.wf, b.wf] + same + [a.kind != R.K_PANIC, b.kind != R.K_PANIC, z3.Not(good)])
    it = ql.add("decode-flag-changes-only-message[%s]" % rel.cfg, r, dt)
    record(res, it, {"query": it["query"], "meaning": "same state and line with decode off/on: equal next state; off => no message and no payload error; on => equal kind and sentence fields, or the payload error in place of Complete"})
    ok = r == "unsat"
    if not ok:
        res.norepro.append(it["query"] + ": " + r + (" model: %s" % step_from_model(s.model(), a, "alpha") if r == "sat" else ""))
    # returned fields are the transmitted ones (unfragmented / non-last fragments); completed group: concatenation (C05)
    st = rel.step("_f")
    v = st.v
    own = z3.And(st.o_nf == v.nf, st.o_fn == v.fn, opt_eq(st.o_id_d, st.o_id_v, v.id_d, v.id_v), st.o_fill == v.fill, st.o_mt == v.mt, st.o_passthru)
    good = z3.And(z3.Implies(accepted(st), own),
                  z3.Implies(z3.Or(st.kind == R.K_INCOMPLETE, z3.And(st.kind == R.K_COMPLETE, v.nf == 1)), st.o_data == v.data),
                  z3.Implies(z3.And(st.kind == R.K_COMPLETE, v.nf != 1), st.o_data == z3.Concat(v.st_data, v.data)))
    s, r, dt = solve([st.wf, st.kind != R.K_PANIC, z3.Not(good)])
    it = ql.add("returned-fields-are-the-transmitted-ones[%s]" % rel.cfg, r, dt)
    record(res, it, {"query": it["query"], "meaning": "every accepted result carries the line's own count/number/id/fill/type/talker/report type/channel; payload unmodified (completed group: state ++ payload)"})
    if r != "unsat":
        ok = False
        res.norepro.append(it["query"] + ": " + r)
    return ok


# ---------------------------------------------------------------- C18-S: configurations agree

def q_cfg_miter(res, ra, rb, ql):
    a, b = ra.step("_m"), rb.step("_m")     # same suffix: identical variables
    v = a.v
    heap = ra.heapless or rb.heapless
    cap = []
    if heap:
        cap = [z3.Length(v.st_data) <= 384, z3.Length(v.data) <= 384, z3.Length(v.st_data) + z3.Length(v.data) <= 384]
    def cat_of(rel, st):
        dec = site_codes(rel, is_decode_site)
        tsite = site_codes(rel, lambda t: t == "layer-T")
        return z3.If(st.kind != R.K_ERR_NMEA, z3.IntVal(0),
                     z3.If(z3.Or(*[st.site == c for c in dec]) if dec else z3.BoolVal(False), z3.IntVal(1),
                           z3.If(z3.Or(*[st.site == c for c in tsite]) if tsite else z3.BoolVal(False), z3.IntVal(2), z3.IntVal(3))))
    diff = z3.Or(a.kind != b.kind, cat_of(ra, a) != cat_of(rb, b),
                 z3.Not(opt_eq(a.post_id_d, a.post_id_v, b.post_id_d, b.post_id_v)), a.post_fn != b.post_fn, a.post_data != b.post_data,
                 z3.And(accepted(a), z3.Or(a.o_nf != b.o_nf, a.o_fn != b.o_fn, z3.Not(opt_eq(a.o_id_d, a.o_id_v, b.o_id_d, b.o_id_v)), a.o_data != b.o_data,
                                           a.o_fill != b.o_fill, a.o_mt != b.o_mt, a.o_msg_some != b.o_msg_some, z3.And(a.o_msg_some, a.o_msg != b.o_msg))),
                 z3.And(a.kind == R.K_ERR_CHECKSUM, z3.Or(a.e_expected != b.e_expected, a.e_found != b.e_found)))
    s, r, dt = solve([a.wf, b.wf] + cap + [diff], timeout_s=300)
    it = ql.add("miter[%s vs %s]" % (ra.cfg, rb.cfg), r, dt)
    record(res, it, {"query": it["query"], "meaning": "same parser state and same line => same outcome kind, error category, next state and every returned field in both configurations (within the 384-byte capacity)"})
    if r == "sat":
        res.norepro.append("%s: SAT: %s" % (it["query"], step_from_model(s.model(), a, "alpha")))
    elif r != "unsat":
        res.inconclusive.append(it["query"] + ": " + r)
    return r == "unsat"


def q_capacity(res, rel, ql):
    """no-alloc only: exceeding 384 reassembled bytes is an error that leaves the parser state unchanged (never a truncation)"""
    st = rel.step("_k")
    v = st.v
    over = z3.And(v.t_ok, v.chk == v.xor, z3.Length(v.st_data) + z3.Length(v.data) > 384, z3.UGE(v.nf, 2), z3.UGE(v.fn, 2),
                  opt_eq(v.st_id_d, v.st_id_v, v.id_d, v.id_v), v.fn == v.st_fn + 1, z3.ULT(v.st_fn, 255))
    good = z3.And(st.kind == R.K_ERR_NMEA, state_eq_pre_post(st))
    s, r, dt = solve([st.wf, over, z3.Not(good)])
    it = ql.add("capacity-overflow=>error,state-kept[%s]" % rel.cfg, r, dt)
    record(res, it, {"query": it["query"], "meaning": "a continuation that would exceed 384 reassembled bytes is rejected and leaves no trace"})
    return r, (s.model() if r == "sat" else None), st


def q_capacity_scaled(res, wrel, ql):
    st = wrel.step("_ks")
    v = st.v
    over = z3.And(v.t_ok, v.chk == v.xor, z3.Length(v.st_data) + z3.Length(v.data) > wrel.cap, z3.UGE(v.nf, 2), z3.UGE(v.fn, 2),
                  opt_eq(v.st_id_d, v.st_id_v, v.id_d, v.id_v), v.fn == v.st_fn + 1, z3.ULT(v.st_fn, 255))
    good = z3.And(st.kind == R.K_ERR_NMEA, state_eq_pre_post(st))
    s, r, dt = solve([st.wf, over, z3.Not(good)])
    it = ql.add("capacity-overflow=>error,state-kept(capacity scaled 384->%d)[%s]" % (wrel.cap, wrel.cfg), r, dt)
    record(res, it)
    return r, (s.model() if r == "sat" else None), st
