"""Shared plumbing for /verif/bin/check: scratch dirs, evidence, known findings, exit codes."""
import atexit, hashlib, json, os, shutil, subprocess, sys, time

VERIF = os.path.dirname(os.path.dirname(os.path.abspath(__file__)))
REPO = os.environ.get("VERIF_REPO", "/repo")
CACHE = os.path.join(VERIF, ".cache")
EVIDENCE_DIR = os.environ.get("VERIF_EVIDENCE_DIR") or os.path.join(VERIF, "evidence")
REPLAY_DIR = os.environ.get("VERIF_REPLAY_DIR") or os.path.join(VERIF, "replays")
KNOWN_FINDINGS = os.path.join(VERIF, "known_findings.json")

EXIT_OK, EXIT_VIOLATION, EXIT_NOREPRO, EXIT_INCONCLUSIVE = 0, 1, 2, 3

_scratch = None


def scratch():
    """per-process scratch directory outside /repo, /verif and /tmp; removed at exit"""
    global _scratch
    if _scratch is None:
        base = os.environ.get("VERIF_SCRATCH_BASE", "/var/tmp")
        _scratch = os.path.join(base, "verif-%d" % os.getpid())
        os.makedirs(_scratch, exist_ok=True)
        atexit.register(lambda: shutil.rmtree(_scratch, ignore_errors=True))
    return _scratch


def env_offline():
    e = dict(os.environ)
    e["CARGO_NET_OFFLINE"] = "true"
    # the cfg-guarded verification hook of /repo (MANIFEST.hooks): on for native builds of the harness crate
    # (cargo kani sets --cfg kani itself and overrides RUSTFLAGS)
    if "ais_verif" not in e.get("RUSTFLAGS", ""):
        e["RUSTFLAGS"] = (e.get("RUSTFLAGS", "") + " --cfg ais_verif").strip()
    e.setdefault("GOPROXY", "off")
    e.setdefault("PIP_NO_INDEX", "1")
    return e


def repo_tree_hash():
    """sha256 over the files the checks depend on (reported in the evidence)"""
    h = hashlib.sha256()
    for root, dirs, files in os.walk(REPO):
        dirs[:] = sorted(d for d in dirs if d not in (".git", "target"))
        for f in sorted(files):
            p = os.path.join(root, f)
            if not (f.endswith(".rs") or f in ("Cargo.toml", "Cargo.lock")):
                continue
            h.update(os.path.relpath(p, REPO).encode())
            with open(p, "rb") as fh:
                h.update(fh.read())
    return h.hexdigest()[:16]


def load_known_findings():
    if not os.path.exists(KNOWN_FINDINGS):
        return {"known": [], "fixed": []}
    with open(KNOWN_FINDINGS) as f:
        return json.load(f)


def log(*a):
    print(*a, file=sys.stderr, flush=True)


class Result:
    """accumulates the outcome of one check run"""

    def __init__(self, prop, tier, seed):
        self.prop, self.tier, self.seed = prop, tier, seed
        self.t0 = time.time()
        self.violations = []      # dicts: {what, replay}
        self.known = []           # strings
        self.inconclusive = []    # strings
        self.norepro = []         # strings
        self.items = []           # per harness / query records
        self.samples = []
        self.states = 0
        self.transitions = 0
        self.replayed = 0
        self.queries = 0
        self.nontrivial = 0
        self.assumptions = []
        self.extra = {}

    def exit_code(self):
        if self.violations:
            return EXIT_VIOLATION
        if self.norepro:
            return EXIT_NOREPRO
        if self.inconclusive:
            return EXIT_INCONCLUSIVE
        return EXIT_OK

    def write_evidence(self, functions_encoded, bounds, technique, trusted):
        os.makedirs(EVIDENCE_DIR, exist_ok=True)
        cov = {
            "states": max(1, int(self.states)),
            "transitions": max(1, int(self.transitions)),
            "traces_validated_against_impl": int(self.replayed),
            "samples": self.samples[:12] if self.samples else ["(none)"],
            "evaluations": max(1, int(self.queries)),
            "distinct_nontrivial": int(self.nontrivial),
            "rule": "one evaluation = one solver query (a Kani/CBMC harness run or an SMT query of the MIR encoder) decided over all "
                    "values inside the stated bound; non-trivial = its reachability witness (kani::cover / sat-check of the path "
                    "condition) was satisfied, i.e. the query was not vacuous; distinct = distinct harness or query names",
            "explanation": technique,
            "functions_encoded": functions_encoded,
            "bounds": bounds,
            "items": self.items,
            "inconclusive": self.inconclusive,
            "known_findings_matched": self.known,
            "not_reproduced": self.norepro,
            "violations": self.violations,
            "repo_tree_hash": repo_tree_hash(),
            "trusted_base": trusted,
            "exhaustive": False,
        }
        cov.update(self.extra)
        ev = {
            "property_id": self.prop,
            "tier": self.tier,
            "seed": int(self.seed),
            "level": "model_checking",
            "coverage": cov,
            "assumptions": self.assumptions,
            "wall_s": round(time.time() - self.t0, 2),
            "violations": len(self.violations),
        }
        with open(os.path.join(EVIDENCE_DIR, self.prop + ".json"), "w") as f:
            json.dump(ev, f, indent=1, default=lambda o: o.decode("latin1") if isinstance(o, (bytes, bytearray)) else str(o))
        return ev
