"""C09 (engine M): the dispatcher messages::parse - variant produced for every 6-bit type value, from its MIR."""
import os, re, time
import z3

import kflow
from common import REPO, log, scratch
from mir import parse as P
from mir.exec import Executor, State, Agg, EnumV, Opaque, Outcome, SeqV
from mir.parse import Unsupported
from mir.relation import dump_mir
from mir.summaries import COMMON, compile_table, ok1
from ms import solve, nmea_line, run_driver, parse_out

# ITU-R M.1371-5 message ids -> the crate's AisMessage variant that must carry them (C09's table)
KIND_OF = {1: "PositionReport", 2: "PositionReport", 3: "PositionReport", 4: "BaseStationReport", 5: "StaticAndVoyageRelatedData",
           6: "BinaryAddressedMessage", 7: "BinaryAcknowledgeMessage", 8: "BinaryBroadcastMessage", 9: "StandardAircraftPositionReport",
           10: "UtcDateInquiry", 11: "UtcDateResponse", 12: "AddressedSafetyRelatedMessage", 13: "SafetyRelatedAcknowledgment",
           14: "SafetyRelatedBroadcastMessage", 15: "Interrogation", 16: "AssignmentModeCommand", 17: "DgnssBroadcastBinaryMessage",
           18: "StandardClassBPositionReport", 19: "ExtendedClassBPositionReport", 20: "DataLinkManagementMessage",
           21: "AidToNavigationReport", 24: "StaticDataReport", 27: "LongRangeAisBroadcastMessage"}


def golden_vectors():
    """struct name -> [(armored payload, fill)] harvested from the repository's own unit tests"""
    out = {}
    d = os.path.join(REPO, "src", "messages")
    for fn in sorted(os.listdir(d)):
        if not fn.endswith(".rs"):
            continue
        t = open(os.path.join(d, fn)).read()
        m = re.search(r"impl<'a> AisMessageType<'a> for (\w+)", t)
        if not m:
            continue
        for mm in re.finditer(r'let bytestream = b"([^"]+)";\s*let bitstream = crate::messages::unarmor\(bytestream, (\d)\)', t):
            out.setdefault(m.group(1), []).append((mm.group(1), int(mm.group(2))))
    return out


def armor_char(v):
    return chr(v + 48) if v < 40 else chr(v + 56)


def run(res, cfgs):
    prop = res.prop
    ok = True
    for cfg in cfgs:
        t0 = time.time()
        try:
            mir_path, dump_s = dump_mir(REPO, cfg, scratch())
            funcs = P.parse_mir(open(mir_path).read())
            enums, structs = P.scan_source_types(os.path.join(REPO, "src"))
            variants = enums["AisMessage"]
            t = z3.BitVec("type6", 8)
            mt_ok = z3.Bool("message_type_ok")
            calls = []

            def s_message_type(ex, st, callee, args, argv, f):
                s1, s2 = st.clone(), st.clone()
                s1.pc.append(mt_ok)
                s2.pc.append(z3.Not(mt_ok))
                return [Outcome(s1, ret=EnumV("Result", 0, {0: [Agg([Opaque("rest"), t])]})),
                        Outcome(s2, ret=EnumV("Result", 1, {1: [Opaque("nom-error")]}))]

            def s_type_parse(ex, st, callee, args, argv, f):
                m = re.match(r"^<(\w+) as AisMessageType<'_>>::parse$", callee)
                ty = m.group(1)
                b = z3.Bool("decodes_%s_%d" % (ty, len(calls)))
                calls.append(ty)
                s1, s2 = st.clone(), st.clone()
                s1.pc.append(b)
                s2.pc.append(z3.Not(b))
                s1.ghost["callee"] = ty
                s2.ghost["callee"] = ty
                s1.ghost["callee_ok"] = True
                s2.ghost["callee_ok"] = False
                return [Outcome(s1, ret=EnumV("Result", 0, {0: [Opaque("decoded:" + ty)]})),
                        Outcome(s2, ret=EnumV("Result", 1, {1: [EnumV("Error", 0, {0: [Opaque("decode-error")]})]}))]

            opaque = lambda tag: (lambda ex, st, c, a, v, f: ok1(st, Opaque(tag)))
            table = compile_table([
                (r"^message_type$", s_message_type),
                (r"^<\w+ as AisMessageType<'_>>::parse$", s_type_parse),
                (r"^core::fmt::rt::Argument::<'_>::new_\w+::<", opaque("fmt-arg")),
                (r"^(?:core::fmt::)?Arguments::<'_>::new", opaque("fmt-args")),
                (r"^(?:alloc::fmt::|std::fmt::)?format$", opaque("formatted")),
                (r"^must_use::<", lambda ex, st, c, a, v, f: ok1(st, v[0])),
                (r"^<(?:string::|alloc::string::|std::string::)?String as Into<err::Error>>::into$",
                 lambda ex, st, c, a, v, f: ok1(st, EnumV("Error", 0, {0: [v[0]]}))),
            ] + COMMON)
            ex = Executor(funcs, enums, structs, table)
            fd = funcs.get("messages::parse")
            if fd is None:
                raise Unsupported("messages::parse not found in the MIR dump")
            st = State()
            st.pc.append(z3.ULT(t, 64))
            outs = ex.run(fd, [SeqV(z3.Const("payload", z3.SeqSort(z3.BitVecSort(8))))], st)
        except Unsupported as e:
            res.inconclusive.append("engine M could not encode messages::parse [%s]: %s" % (cfg, e))
            ok = False
            continue
        enc_s = time.time() - t0
        # expected variant index per type value (-1: must be an error)
        exp = z3.IntVal(-1)
        for tv, name in KIND_OF.items():
            if name not in variants:
                res.inconclusive.append("AisMessage has no variant %s" % name)
                ok = False
                continue
            exp = z3.If(t == tv, z3.IntVal(variants.index(name)), exp)
        bad = []
        table_rows = []
        for o in outs:
            pc = z3.And(*o.st.pc)
            if o.panic is not None:
                bad.append((pc, "panic: %s" % o.panic.msg, None))
                continue
            r = o.ret
            callee = o.st.ghost.get("callee")
            if r.disc == 0:
                v = r.payloads[0][0]
                vi = v.disc
                payload = v.payloads[vi][0]
                table_rows.append((str(z3.simplify(pc))[:80], variants[vi], callee))
                bad.append((z3.And(pc, exp != vi), "type value decodes to variant %s" % variants[vi], callee))
                if not (isinstance(payload, Opaque) and payload.tag == "decoded:%s" % callee):
                    bad.append((pc, "variant %s does not carry the value returned by its decoder" % variants[vi], callee))
            else:
                if o.st.ghost.get("callee_ok"):
                    bad.append((pc, "decoder %s succeeded but the dispatcher returned an error" % callee, callee))
        # a supported type must reach its decoder: Err paths without any callee are allowed only for unsupported types / empty payload
        for o in outs:
            if o.panic is None and o.ret.disc == 1 and o.st.ghost.get("callee") is None:
                pc = z3.And(*o.st.pc)
                bad.append((z3.And(pc, mt_ok, exp != -1), "supported type rejected without calling a decoder", None))
        s, r, dt = solve([z3.Or(*[b for b, _, _ in bad])], timeout_s=60)
        item = {"engine": "M", "query": "dispatch-table[%s]" % cfg, "result": r, "seconds": round(dt, 3), "paths": len(outs),
                "mir_blocks": len(fd.raw), "decoders_called": sorted(set(calls)), "encode_s": round(enc_s, 2)}
        log("  [M] %-52s %-8s %.2fs (%d paths)" % (item["query"], r, dt, len(outs)))
        res.items.append(item)
        res.queries += 1
        res.states += ex.blocks_visited
        res.transitions += len(outs)
        if r == "unsat":
            res.nontrivial += 1
            res.samples.append({"query": item["query"], "meaning": "for all 64 type values: Ok(variant) only with the variant the specification names, carrying its own decoder's value; the 43 unsupported values and the empty payload are errors",
                                "arms": len([1 for o in outs if o.panic is None and o.ret.disc == 0])})
            continue
        ok = False
        if r != "sat":
            res.inconclusive.append(item["query"] + ": " + r)
            continue
        m = s.model()
        tv = m.eval(t).as_long()
        which = [(msg, cal) for b, msg, cal in bad if z3.is_true(m.eval(b))]
        msg, cal = which[0] if which else ("?", None)
        # replay: a payload that the offending decoder accepts (golden vector of its own type) with the type bits set to tv
        gv = golden_vectors()
        cands = gv.get(cal, []) if cal else [p for v in gv.values() for p in v]
        reproduced = False
        for payload, fill in cands[:6] + [("0" * 28, 0)]:
            pl = armor_char(tv) + payload[1:]
            line = nmea_line(1, 1, None, pl, fill)
            outs_r, path = run_driver(cfg, ["N", (True, line)])
            res.replayed += 1
            o = parse_out(outs_r[0])
            expect = KIND_OF.get(tv)
            wrong = (o["kind"] == "C" and o.get("variant") != (expect or "<error>")) or o["kind"] == "P"
            if wrong:
                rec = {"property": prop, "engine": "M", "query": item["query"], "cfg": cfg, "type_value": tv, "line": line.decode("latin1"),
                       "real_output": outs_r[0], "expected": expect or "error", "what": msg,
                       "script": ["N", "L 1 " + line.hex()]}
                path = kflow.write_replay(prop, rec)
                res.violations.append({"what": "dispatch[%s]: type %d: %s (real: %s, specification: %s)" % (cfg, tv, msg, o.get("variant", o["kind"]), expect or "error"), "replay": path})
                print("VIOLATION property=%s replay=%s" % (prop, path), flush=True)
                reproduced = True
                break
        if not reproduced:
            res.norepro.append("dispatch[%s]: model type %d (%s) did not reproduce on the real library" % (cfg, tv, msg))
    return ok
