"""check --replay <file>: re-run a recorded counter-example against the real build of /repo."""
import json
import kanirun
from common import log


def run(path):
    rec = json.load(open(path))
    if rec.get("engine") == "kani":
        nat = kanirun.replay_native(rec["cfg"], rec["harness"], rec["values"])
        for prof, v in nat.items():
            print("%s: rc=%s %s" % (prof, v.get("rc"), (v.get("out") or "").strip()))
        rep = any(v.get("rc") == 10 for v in nat.values())
        print("REPRODUCED" if rep else "NOT REPRODUCED")
        return 1 if rep else 0
    import mreplay
    return mreplay.run(rec)
