"""Layer S queries (engine M): fragment reassembly state machine of AisParser::parse.
Every query is a z3 query over the transition relation derived from the MIR (mir/relation.py); every SAT answer is
turned into concrete NMEA lines and replayed on the real library before it is reported."""
import json, os, subprocess, time
import z3

import kanirun
from common import REPO, log, scratch
from mir import relation as R
from mir.parse import Unsupported

ALPHABET = [c for c in range(48, 88)] + [c for c in range(96, 120)]


# ---------------------------------------------------------------- concrete side: lines, native driver

def nmea_line(nf, fn, mid, data, fill, good_checksum=True, channel="A"):
    body = "AIVDM,%d,%d,%s,%s,%s,%d" % (nf, fn, "" if mid is None else str(mid), channel, data, fill)
    cs = 0
    for ch in body.encode("latin1"):
        cs ^= ch
    if not good_checksum:
        cs ^= 0x55
    return ("!" + body + "*%02X" % cs).encode("latin1")


def run_driver(cfg, script_lines):
    """script_lines: list of 'N' | (decode, bytes); returns list of output strings (one per line entry)"""
    exe_dir = os.path.join(kanirun.CACHE, "native-" + cfg)
    exe = os.path.join(exe_dir, "debug", "driver")
    if not os.path.exists(exe) or os.path.getmtime(exe) < newest_src_mtime():
        cmd = ["cargo", "build", "--offline", "--bin", "driver", "--target-dir", exe_dir] + kanirun.CFG_FEATURES[cfg]
        rc, out, dt, to = kanirun._run(cmd, 900)
        if rc != 0:
            raise RuntimeError("driver build failed: " + out[-2000:])
    path = os.path.join(scratch(), "script-%d.txt" % (time.time_ns() % 10**9))
    with open(path, "w") as f:
        for e in script_lines:
            if e == "N":
                f.write("N\n")
            elif isinstance(e, tuple) and e[0] == "U":
                f.write("U %d %s\n" % (e[1], bytes(e[2]).hex() or "-"))
            else:
                dec, line = e
                f.write("L %d %s\n" % (1 if dec else 0, line.hex() or "-"))
    env = dict(os.environ)
    env["RUST_BACKTRACE"] = "0"
    p = subprocess.run([exe, path], stdout=subprocess.PIPE, stderr=subprocess.PIPE, text=True, env=env, timeout=120)
    outs = [l for l in p.stdout.split("\n") if l.strip()]
    return outs, path


def newest_src_mtime():
    m = 0
    for root, dirs, files in os.walk(os.path.join(kanirun.KANI_CRATE, "src")):
        for f in files:
            if f.endswith(".rs"):
                m = max(m, os.path.getmtime(os.path.join(root, f)))
    for root, dirs, files in os.walk(REPO):
        dirs[:] = [d for d in dirs if d not in (".git", "target")]
        for f in files:
            if f.endswith(".rs") or f == "Cargo.toml":
                m = max(m, os.path.getmtime(os.path.join(root, f)))
    return m


def parse_out(s):
    p = s.split()
    if p[0] in ("C", "I"):
        return {"kind": p[0], "nf": int(p[1]), "fn": int(p[2]), "id": None if p[3] == "-" else int(p[3]), "fill": int(p[4]),
                "mt": int(p[5]), "msg": p[6] == "1", "data": b"" if p[7] == "-" else bytes.fromhex(p[7]), "msghash": p[8], "variant": p[9] if len(p) > 9 else "-",
                "channel": (None if p[10] == "-" else int(p[10])) if len(p) > 10 else None, "talker": p[11] if len(p) > 11 else "?",
                "rtype": p[12] if len(p) > 12 else "?"}
    if p[0] == "E":
        return {"kind": "E", "sub": p[1], "args": p[2:]}
    return {"kind": "P", "msg": " ".join(p[1:])}


# ---------------------------------------------------------------- model -> history

def seq_bytes(model, e):
    n = model.eval(z3.Length(e), model_completion=True)
    n = n.as_long() if z3.is_int_value(n) else 0
    out = []
    for i in range(n):
        v = model.eval(e[z3.IntVal(i)], model_completion=True)
        out.append(v.as_long() if z3.is_bv_value(v) else 0)
    return out


def step_from_model(model, st, mode, scale=1):
    v = st.v
    g = lambda e: model.eval(e, model_completion=True)
    t_ok = z3.is_true(g(v.t_ok))
    nf, fn = g(v.nf).as_long(), g(v.fn).as_long()
    mid = g(v.id_v).as_long() if g(v.id_d).as_long() == 1 else None
    raw = seq_bytes(model, v.data)
    if scale != 1:
        raw = [b for b in raw for _ in range(scale)]
    if mode == "zero":
        data = "0" * max(1, len(raw))
    else:
        data = "".join(chr(ALPHABET[b % 64]) for b in raw) or "1"
    fill = g(v.fill).as_long() % 6
    good = g(v.chk).as_long() == g(v.xor).as_long()
    dec = z3.is_true(g(v.decode))
    if not t_ok:
        line = b"!AIVDM,garbage"
    else:
        line = nmea_line(nf, fn, mid, data, fill, good)
    return {"t_ok": t_ok, "nf": nf, "fn": fn, "id": mid, "data": data, "fill": fill, "good_checksum": good, "decode": dec,
            "line": line.decode("latin1")}


# ---------------------------------------------------------------- concrete property monitors (decide replays on real outputs)

def monitor_c06(steps, outs):
    """spec monitor of C06 on a concrete run from a fresh parser; returns description of the first violation or None"""
    open_, gid, last, cat = False, None, 0, b""
    for i, (s, o) in enumerate(zip(steps, outs)):
        if o["kind"] == "P":
            continue
        acc = o["kind"] in ("C", "I")
        if not acc:
            continue
        nf, fn, mid, data = o["nf"], o["fn"], o["id"], s["data"].encode("latin1")
        if fn >= 2:
            if not (open_ and gid == mid and last == fn - 1):
                return "step %d: fragment %d of %d (id %s) accepted although it does not continue an open group (open=%s, group id %s, last accepted %d)" % (
                    i + 1, fn, nf, mid, open_, gid, last)
            if o["kind"] == "C" and o["data"] != cat + data:
                return "step %d: delivered payload %r is not the concatenation %r of the group's fragments" % (i + 1, o["data"], cat + data)
            last, cat = fn, cat + data
            if o["kind"] == "C":
                open_ = False
        elif nf >= 2 and fn == 1:
            open_, gid, last, cat = True, mid, 1, data
    return None


def monitor_c05(steps, outs, tags):
    """the G-tagged steps form an in-order group; every non-last must be Incomplete with its own fields, the last Complete with the concatenation"""
    g = [i for i, t in enumerate(tags) if t]
    cat = b""
    for j, i in enumerate(g):
        o, s = outs[i], steps[i]
        cat += s["data"].encode("latin1")
        if o["kind"] == "P":
            return "step %d panicked" % (i + 1)
        if j < len(g) - 1:
            if o["kind"] != "I" or o["data"] != s["data"].encode("latin1") or o["fn"] != s["fn"] or o["nf"] != s["nf"] or o["id"] != s["id"]:
                return "step %d (fragment %d of %d): expected Incomplete carrying the fragment's own fields, got %s" % (i + 1, s["fn"], s["nf"], o)
        else:
            if s["decode"]:
                continue    # decoded outcome depends on the payload; compared against the unfragmented decode separately
            if o["kind"] != "C" or o["data"] != cat:
                return "step %d (last fragment): expected Complete with payload %r, got %s" % (i + 1, cat, o)
    return None


def monitor_c17(steps, outs, steps2, outs2, removed):
    """run 2 = run 1 with step `removed` deleted; all other outputs must agree"""
    o1 = [o for i, o in enumerate(outs) if i != removed]
    for i, (a, b) in enumerate(zip(o1, outs2)):
        if a != b:
            return "after removing line %d (%s -> %s), the result of another line changed: %s vs %s" % (
                removed + 1, steps[removed]["line"], outs[removed]["kind"], a, b)
    return None


# ---------------------------------------------------------------- query helpers

class QueryLog:
    def __init__(self):
        self.items = []

    def add(self, name, result, seconds, **kw):
        d = {"engine": "M", "query": name, "result": result, "seconds": round(seconds, 3)}
        d.update(kw)
        self.items.append(d)
        log("  [M] %-52s %-8s %.2fs" % (name, result, seconds))
        return d


class ModelProxy:
    """model obtained from the solver child process: values of all uninterpreted constants; eval by substitution"""

    def __init__(self, consts, values):
        self.sub = []
        for c in consts:
            v = values.get(str(c))
            if v is None:
                continue
            if z3.is_bool(c):
                self.sub.append((c, z3.BoolVal(bool(v))))
            elif z3.is_bv(c):
                self.sub.append((c, z3.BitVecVal(int(v), c.size())))
            elif z3.is_seq(c):
                e = z3.Empty(R.BYTES)
                for x in v:
                    e = z3.Concat(e, z3.Unit(z3.BitVecVal(int(x), 8)))
                self.sub.append((c, e))
            elif z3.is_int(c):
                self.sub.append((c, z3.IntVal(int(v))))
            elif z3.is_array(c):
                a = z3.K(c.sort().domain(), z3.BitVecVal(0, c.sort().range().size()))
                for i, x in enumerate(v):
                    a = z3.Store(a, z3.BitVecVal(i, c.sort().domain().size()), z3.BitVecVal(int(x), c.sort().range().size()))
                for k2, x in (values.get(str(c) + "#sparse") or {}).items():
                    a = z3.Store(a, z3.BitVecVal(int(k2), c.sort().domain().size()), z3.BitVecVal(int(x), c.sort().range().size()))
                self.sub.append((c, a))

    def eval(self, e, model_completion=True):
        r = z3.simplify(z3.substitute(e, *self.sub)) if self.sub else z3.simplify(e)
        if model_completion and not (z3.is_bv_value(r) or z3.is_true(r) or z3.is_false(r) or z3.is_int_value(r) or z3.is_string_value(r)):
            if z3.is_bv(r):
                return z3.BitVecVal(0, r.size()) if not _try_const(r) else r
            if z3.is_bool(r):
                return z3.BoolVal(False)
        return r


def _try_const(r):
    return z3.is_bv_value(r)


def collect_consts(exprs):
    seen, out, stack = set(), [], list(exprs)
    while stack:
        e = stack.pop()
        if e.get_id() in seen:
            continue
        seen.add(e.get_id())
        if z3.is_const(e) and e.decl().kind() == z3.Z3_OP_UNINTERPRETED:
            out.append(e)
        elif z3.is_quantifier(e):
            stack.append(e.body())
        else:
            stack.extend(e.children())
    return out


class SolvedProxy:
    def __init__(self, model):
        self._m = model

    def model(self):
        return self._m


def _child_solve(constraints, consts, timeout_s, w_fd, sat_backend, seed=None):
    """runs in the forked child: z3 first (short budget when a SAT back end follows), then bit-blast -> CNF -> kissat for the
    hard UNSAT cases; a kissat SAT answer is turned into a model by z3 with the remaining budget"""
    import subprocess, tempfile
    t0 = time.time()
    note = "z3"
    try:
        s = z3.Solver()
        first = min(timeout_s, 25) if sat_backend else timeout_s
        s.set("timeout", int(first * 1000))
        if seed:
            s.set("random_seed", int(seed))
            z3.set_param("smt.random_seed", int(seed))
            z3.set_param("sat.random_seed", int(seed))
        for c in constraints:
            s.add(c)
        r = str(s.check())
        if r == "unknown" and sat_backend and time.time() - t0 < timeout_s:
            g = z3.Goal()
            for c in constraints:
                g.add(c)
            sub = z3.Then("simplify", "propagate-values", "solve-eqs", "simplify", "bit-blast", "tseitin-cnf")(g)
            if len(sub) == 1:
                cnf = "\n".join(l for l in sub[0].dimacs().split("\n") if not l.startswith("c"))
                fd, path = tempfile.mkstemp(suffix=".cnf", dir=os.environ.get("VERIF_SCRATCH_DIR", "/var/tmp"))
                os.write(fd, cnf.encode())
                os.close(fd)
                left = max(5, int(timeout_s - (time.time() - t0)))
                try:
                    p = subprocess.run(["kissat", "-q", "--relaxed", "--time=%d" % left, path], stdout=subprocess.PIPE, stderr=subprocess.STDOUT, text=True, timeout=left + 20)
                    out = p.stdout
                finally:
                    os.unlink(path)
                note = "z3:unknown(%ds) -> bit-blast (%d clauses) -> kissat" % (first, len(sub[0]))
                if "s UNSATISFIABLE" in out:
                    r = "unsat"
                elif "s SATISFIABLE" in out:
                    left = max(5, int(timeout_s - (time.time() - t0)))
                    s.set("timeout", int(left * 1000))
                    r = str(s.check())
                    note += " (kissat: SAT) -> z3 for the model"
                    if r != "sat":
                        r = "unknown"
        vals = {}
        if r == "sat":
            m = s.model()
            for c in consts:
                try:
                    if z3.is_seq(c):
                        n = m.eval(z3.Length(c), model_completion=True).as_long()
                        vals[str(c)] = [m.eval(c[z3.IntVal(i)], model_completion=True).as_long() for i in range(min(n, 2000))]
                    elif z3.is_array(c):
                        dw = c.sort().domain().size()
                        vals[str(c)] = [m.eval(z3.Select(c, z3.BitVecVal(i, dw)), model_completion=True).as_long() for i in range(256)]
                        # and at the positions the model's own index variables point to (and their neighbours)
                        sp = {}
                        for c2 in consts:
                            if z3.is_bv(c2) and c2.size() == dw:
                                v2 = m.eval(c2, model_completion=True).as_long()
                                for d in (-1, 0, 1):
                                    k2 = (v2 + d) % (1 << dw)
                                    sp[str(k2)] = m.eval(z3.Select(c, z3.BitVecVal(k2, dw)), model_completion=True).as_long()
                        vals[str(c) + "#sparse"] = sp
                    elif z3.is_bool(c):
                        vals[str(c)] = z3.is_true(m.eval(c, model_completion=True))
                    elif z3.is_bv(c) or z3.is_int(c):
                        vals[str(c)] = m.eval(c, model_completion=True).as_long()
                except Exception:
                    pass
        os.write(w_fd, json.dumps({"r": r, "vals": vals, "note": note}).encode())
    except BaseException as e:   # noqa
        try:
            os.write(w_fd, json.dumps({"r": "error: %s" % e, "vals": {}, "note": note}).encode())
        except Exception:
            pass
    finally:
        os._exit(0)


def solve_many(problems, timeout_s=120, sat_backend=False):
    """problems: list of constraint lists; all solved concurrently in child processes (hard wall-clock limit).
    returns list of (SolvedProxy, result string, seconds, note)"""
    import select
    jobs = []
    t0 = time.time()
    for cons in problems:
        consts = collect_consts(list(cons))
        r_fd, w_fd = os.pipe()
        pid = os.fork()
        if pid == 0:
            os.close(r_fd)
            _child_solve(cons, consts, timeout_s, w_fd, sat_backend)
        os.close(w_fd)
        jobs.append({"pid": pid, "fd": r_fd, "buf": b"", "consts": consts, "done": False, "dt": None})
    deadline = t0 + timeout_s + 30
    while not all(j["done"] for j in jobs) and time.time() < deadline:
        fds = [j["fd"] for j in jobs if not j["done"]]
        rd, _, _ = select.select(fds, [], [], 1.0)
        for j in jobs:
            if j["done"] or j["fd"] not in rd:
                continue
            chunk = os.read(j["fd"], 1 << 20)
            if chunk:
                j["buf"] += chunk
            else:
                j["done"] = True
                j["dt"] = time.time() - t0
    out = []
    for j in jobs:
        try:
            os.kill(j["pid"], 9)
        except ProcessLookupError:
            pass
        try:
            os.waitpid(j["pid"], 0)
        except ChildProcessError:
            pass
        os.close(j["fd"])
        dt = j["dt"] if j["dt"] is not None else time.time() - t0
        if not j["buf"]:
            out.append((SolvedProxy(None), "timeout", dt, ""))
            continue
        d = json.loads(j["buf"].decode())
        out.append((SolvedProxy(ModelProxy(j["consts"], d["vals"]) if d["r"] == "sat" else None), d["r"], dt, d.get("note", "")))
    return out


def solve_portfolio(constraints, timeout_s=120, seeds=(0, 1, 2, 3)):
    """the same query under several solver seeds in parallel child processes; the first definite answer wins (solver run time on
    the array/bit-vector queries of layer U varies by two orders of magnitude with the seed)"""
    import select
    cons = list(constraints)
    consts = collect_consts(cons)
    t0 = time.time()
    jobs = []
    for sd in seeds:
        r_fd, w_fd = os.pipe()
        pid = os.fork()
        if pid == 0:
            os.close(r_fd)
            _child_solve(cons, consts, timeout_s, w_fd, False, seed=sd)
            os._exit(0)
        os.close(w_fd)
        jobs.append({"pid": pid, "fd": r_fd, "buf": b"", "done": False})
    deadline = t0 + timeout_s + 30
    answer = None
    while answer is None and not all(j["done"] for j in jobs) and time.time() < deadline:
        fds = [j["fd"] for j in jobs if not j["done"]]
        rd, _, _ = select.select(fds, [], [], 1.0)
        for j in jobs:
            if j["done"] or j["fd"] not in rd:
                continue
            chunk = os.read(j["fd"], 1 << 20)
            if chunk:
                j["buf"] += chunk
            else:
                j["done"] = True
                try:
                    d = json.loads(j["buf"].decode())
                    if d.get("r") in ("sat", "unsat"):
                        answer = d
                        break
                except Exception:
                    pass
    for j in jobs:
        try:
            os.kill(j["pid"], 9)
        except ProcessLookupError:
            pass
        try:
            os.waitpid(j["pid"], 0)
        except ChildProcessError:
            pass
        os.close(j["fd"])
    dt = time.time() - t0
    if answer is None:
        return SolvedProxy(None), "unknown", dt
    return SolvedProxy(ModelProxy(consts, answer.get("vals", {})) if answer["r"] == "sat" else None), answer["r"], dt


def solve(constraints, timeout_s=120, sat_backend=False):
    """check-sat in a child process (hard wall-clock limit: z3's own timeout is not honoured by every theory solver)"""
    s, r, dt, note = solve_many([list(constraints)], timeout_s, sat_backend)[0]
    return s, r, dt


def chain(rel, k, fresh_start, maxlen=None, decode_mode=None):
    """k linked steps. returns (steps, constraints)"""
    steps = [rel.step("_%d" % (i + 1)) for i in range(k)]
    cons = []
    for i, st in enumerate(steps):
        v = st.v
        cons.append(st.wf)
        if maxlen is not None:
            cons.append(z3.Length(v.data) <= maxlen)
        if decode_mode == "off":
            cons.append(z3.Not(v.decode))
        if decode_mode == "zero":
            # decode requested, every payload undecodable ('0...0': unarmors, no decoder for type 0)
            cons.append(v.decode)
            for attr, e in list(st.__dict__.items()):
                if isinstance(e, z3.ExprRef):
                    setattr(st, attr, z3.substitute_funs(e, (R.F_UNARMOR_OK, z3.BoolVal(True)), (R.F_MSG_OK, z3.BoolVal(False))))
        if i == 0:
            if fresh_start:
                cons += [v.st_id_d == 0, v.st_fn == 0, z3.Length(v.st_data) == 0]
            elif maxlen is not None:
                cons.append(z3.Length(v.st_data) <= 2 * maxlen)
        else:
            p = steps[i - 1]
            cons += [v.st_id_d == p.post_id_d, z3.Or(v.st_id_d == 0, v.st_id_v == p.post_id_v), v.st_fn == p.post_fn, v.st_data == p.post_data]
    return steps, cons


def opt_eq(d1, v1, d2, v2):
    return z3.And(d1 == d2, z3.Or(d1 == 0, v1 == v2))


def state_eq_pre_post(st):
    v = st.v
    return z3.And(opt_eq(v.st_id_d, v.st_id_v, st.post_id_d, st.post_id_v), v.st_fn == st.post_fn, v.st_data == st.post_data)


def accepted(st):
    return z3.Or(st.kind == R.K_COMPLETE, st.kind == R.K_INCOMPLETE)


def is_err(st):
    return z3.Or(st.kind == R.K_ERR_NMEA, st.kind == R.K_ERR_CHECKSUM)
