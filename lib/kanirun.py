"""Engine K: build the harness crate against /repo with Kani, run harnesses in parallel, parse CBMC's
verdicts and statistics, extract counter-examples (concrete playback) and replay them natively."""
import concurrent.futures, fcntl, os, re, resource, shutil, subprocess, time, hashlib, json

from common import CACHE, VERIF, REPO, REPLAY_DIR, env_offline, log, scratch

KANI_CRATE = os.path.join(VERIF, "kani")
if os.path.realpath(REPO) != "/repo":
    # checks redirected to another checkout (VERIF_REPO): private copy of the harness crate pointing at it, private build dirs
    import shutil as _sh
    _priv = os.path.join(scratch(), "kani-crate")
    if not os.path.exists(_priv):
        _sh.copytree(KANI_CRATE, _priv, ignore=_sh.ignore_patterns("target"))
        _ct = os.path.join(_priv, "Cargo.toml")
        _txt = open(_ct).read().replace('path = "/repo"', 'path = "%s"' % os.path.realpath(REPO))
        with open(_ct, "w") as _f:
            _f.write(_txt)
    KANI_CRATE = _priv
    CACHE = os.path.join(scratch(), "cache")
    os.makedirs(CACHE, exist_ok=True)
CFG_FEATURES = {"std": ["--features", "std"], "alloc": ["--features", "alloc"], "none": []}
KANI_FLAGS = ["-Z", "stubbing", "--no-assertion-reach-checks"]


def target_dir(cfg):
    return os.path.join(CACHE, "kani-" + cfg)


def _limits(mem_gb):
    def f():
        if mem_gb:
            b = int(mem_gb * (1 << 30))
            resource.setrlimit(resource.RLIMIT_AS, (b, b))
        os.setsid()
    return f


def _run(cmd, timeout, mem_gb=None, cwd=KANI_CRATE):
    t0 = time.time()
    p = subprocess.Popen(cmd, cwd=cwd, env=env_offline(), stdout=subprocess.PIPE, stderr=subprocess.STDOUT,
                         preexec_fn=_limits(mem_gb), text=True, errors="replace")
    try:
        out, _ = p.communicate(timeout=timeout)
        to = False
    except subprocess.TimeoutExpired:
        try:
            os.killpg(p.pid, 9)
        except ProcessLookupError:
            pass
        out, _ = p.communicate()
        to = True
    return p.returncode, out, time.time() - t0, to


def build(cfg):
    """cargo kani --only-codegen for one configuration (persistent target dir, file lock)"""
    os.makedirs(CACHE, exist_ok=True)
    lock = open(os.path.join(CACHE, "build-%s.lock" % cfg), "w")
    fcntl.flock(lock, fcntl.LOCK_EX)
    try:
        cmd = ["cargo", "kani"] + CFG_FEATURES[cfg] + KANI_FLAGS + ["--only-codegen", "--target-dir", target_dir(cfg)]
        rc, out, dt, to = _run(cmd, 1800)
        ok = rc == 0 and not to
        if not ok:
            log("[kani build %s] FAILED rc=%s\n%s" % (cfg, rc, out[-4000:]))
        return ok, out, dt
    finally:
        fcntl.flock(lock, fcntl.LOCK_UN)
        lock.close()


_native = {}


def build_native(cfg, release=False):
    """native replay binary of the harness crate for one configuration and profile"""
    key = (cfg, release)
    if key in _native:
        return _native[key]
    td = os.path.join(CACHE, "native-" + cfg)
    lock = open(os.path.join(CACHE, "native-%s.lock" % cfg), "w")
    fcntl.flock(lock, fcntl.LOCK_EX)
    try:
        cmd = ["cargo", "build", "--offline", "--bin", "replay", "--target-dir", td] + CFG_FEATURES[cfg]
        if release:
            cmd.append("--release")
        rc, out, dt, to = _run(cmd, 900)
        path = os.path.join(td, "release" if release else "debug", "replay")
        if rc != 0 or not os.path.exists(path):
            log("[native build %s] FAILED\n%s" % (cfg, out[-3000:]))
            path = None
        _native[key] = path
        return path
    finally:
        fcntl.flock(lock, fcntl.LOCK_UN)
        lock.close()


RE_NUM = r"([0-9.e+-]+)"


def parse_output(out):
    """extract verdict, failed checks, cover statuses and CBMC statistics from Kani's regular output"""
    r = {"verdict": None, "failed": [], "covers": [], "stats": {}}
    m = re.findall(r"VERIFICATION:- (SUCCESSFUL|FAILED)", out)
    if m:
        r["verdict"] = m[-1]
    # per-check blocks
    for blk in re.finditer(r"Check \d+: (\S+)\n\s+- Status: (\w+)\n\s+- Description: \"(.*)\"\n\s+- Location: (.*)\n", out):
        name, status, desc, loc = blk.groups()
        if ".cover." in name or name.endswith(".cover") or status in ("SATISFIED", "UNSATISFIABLE"):
            r["covers"].append({"desc": desc, "status": status})
        elif status == "FAILURE":
            r["failed"].append({"check": name, "desc": desc, "loc": loc.strip()})
        elif status in ("UNDETERMINED",):
            pass
    if "Status: ERROR" in out or "CBMC failed" in out or "out of memory" in out.lower() or "std::bad_alloc" in out:
        r["error"] = True
    st = r["stats"]
    m = re.search(r"size of program expression: (\d+) steps", out)
    if m:
        st["steps"] = int(m.group(1))
    m = re.search(r"Generated (\d+) VCC\(s\), (\d+) remaining", out)
    if m:
        st["vccs"] = int(m.group(1))
        st["vccs_remaining"] = int(m.group(2))
    m = re.findall(r"(\d+) variables, (\d+) clauses", out)
    if m:
        st["vars"] = int(m[-1][0])
        st["clauses"] = int(m[-1][1])
    m = re.search(r"Runtime Symex: " + RE_NUM + "s", out)
    if m:
        st["symex_s"] = float(m.group(1))
    st["solver_s"] = round(sum(float(x) for x in re.findall(r"Runtime Solver: " + RE_NUM + "s", out)), 3)
    st["sat_calls"] = len(re.findall(r"Runtime Solver:", out))
    m = re.search(r"Verification Time: " + RE_NUM + "s", out)
    if m:
        st["verification_s"] = float(m.group(1))
    st["stubs_applied"] = sorted(set(re.findall(r"- Stub: (\S+)", out)))
    return r


def parse_playback(out):
    """concrete playback tests printed by Kani -> list of {kind, desc, values:[[bytes]]}"""
    tests = []
    for blk in out.split("Concrete playback unit test for")[1:]:
        m = re.search(r"/// Check for `(\w+)`: \"([^\n]*)\"\s*\n", blk)
        if not m:
            continue
        body = blk.split("kani::concrete_playback_run")[0]
        vals = [[int(x) for x in v.split(",") if x.strip()] for v in re.findall(r"vec!\[([0-9, ]*)\],", body)]
        tests.append({"kind": m.group(1), "desc": m.group(2), "values": vals})
    return tests


def run_harness(cfg, name, timeout=600, mem_gb=14, playback=False, extra=None):
    cmd = ["cargo", "kani"] + CFG_FEATURES[cfg] + KANI_FLAGS
    if playback:
        cmd += ["-Z", "concrete-playback", "--concrete-playback=print"]
    cmd += ["--harness", name, "--target-dir", target_dir(cfg)]
    if extra:
        cmd += extra
    rc, out, dt, to = _run(cmd, timeout, mem_gb)
    r = parse_output(out)
    r.update({"harness": name, "cfg": cfg, "wall_s": round(dt, 1), "timeout": to, "rc": rc})
    if playback:
        r["playback"] = parse_playback(out)
    mt = re.search(r"Complete - \d+ successfully verified harnesses, \d+ failures, (\d+) total", out)
    if mt and int(mt.group(1)) != 1:
        r["error"] = True
        out += "\n[runner] harness name matched %s harnesses" % mt.group(1)
    if to:
        r["outcome"] = "TIMEOUT"
    elif r.get("error") or r["verdict"] is None:
        r["outcome"] = "ERROR"
        r["tail"] = out[-1500:]
    elif r["verdict"] == "FAILED":
        if r["failed"] and all("unwinding assertion" in f["desc"] for f in r["failed"]):
            r["outcome"] = "UNWIND"
        elif not r["failed"]:
            r["outcome"] = "ERROR"
            r["tail"] = out[-1500:]
        else:
            r["outcome"] = "FAIL"
    else:
        bad = [c for c in r["covers"] if c["status"] != "SATISFIED"]
        r["outcome"] = "VACUOUS" if bad else "PASS"
    return r


def full_name(module_path, name):
    return name


def replay_native(cfg, harness, values):
    """run the harness body natively (debug and release) on concrete values; returns dict"""
    os.makedirs(os.path.join(REPLAY_DIR), exist_ok=True)
    vf = os.path.join(scratch(), "vals-%s-%s.txt" % (harness, hashlib.sha1(repr(values).encode()).hexdigest()[:8]))
    with open(vf, "w") as f:
        for v in values:
            f.write(",".join(str(b) for b in v) + "\n")
    res = {}
    for rel in (False, True):
        exe = build_native(cfg, rel)
        prof = "release" if rel else "debug"
        if not exe:
            res[prof] = {"rc": None, "out": "native build failed"}
            continue
        env = dict(os.environ)
        env["RUST_BACKTRACE"] = "0"
        p = subprocess.run([exe, harness, vf], stdout=subprocess.PIPE, stderr=subprocess.STDOUT, text=True, errors="replace",
                           timeout=120, env=env)
        res[prof] = {"rc": p.returncode, "out": p.stdout[:800]}
    return res


def parse_terse(out, wanted):
    """terse -j output -> {short harness name: result dict}"""
    cur = {}
    res = {}
    if not re.search(r"^Thread \d+: ", out, re.M):
        # single-threaded run: no thread prefixes; normalise to the threaded format
        out = re.sub(r"^Checking harness ", "Thread 0: Checking harness ", out, flags=re.M)
        out = re.sub(r"^VERIFICATION RESULT:", "Thread 0: \nVERIFICATION RESULT:", out, flags=re.M)
    blocks = re.split(r"\n(?=Thread \d+: )", out)
    for b in blocks:
        m = re.match(r"Thread (\d+): Checking harness (\S+?)\.\.\.", b)
        if m:
            cur[m.group(1)] = m.group(2)
            continue
        m = re.match(r"Thread (\d+): \s*\n", b)
        if m and "VERIFICATION" in b:
            full = cur.get(m.group(1))
            if not full:
                continue
            short = full.split("::")[-1]
            r = {"harness": short, "full_name": full, "failed": [], "covers": [], "stats": {}}
            v = re.search(r"VERIFICATION:- (SUCCESSFUL|FAILED)", b)
            r["verdict"] = v.group(1) if v else None
            c = re.search(r"\*\* (\d+) of (\d+) failed", b)
            if c:
                r["stats"]["checks_failed"], r["stats"]["checks"] = int(c.group(1)), int(c.group(2))
            c = re.search(r"\*\* (\d+) of (\d+) cover properties satisfied", b)
            if c:
                r["stats"]["covers_satisfied"], r["stats"]["covers"] = int(c.group(1)), int(c.group(2))
            for f in re.finditer(r"Failed Checks: (.*)\n File: (.*)", b):
                r["failed"].append({"desc": f.group(1).strip().strip('"'), "loc": f.group(2).strip()})
            t = re.search(r"Verification Time: ([0-9.]+)s", b)
            if t:
                r["stats"]["verification_s"] = float(t.group(1))
                r["wall_s"] = round(float(t.group(1)), 1)
            if "timed out" in b.lower() or "timeout" in b.lower():
                r["timeout"] = True
            r["raw"] = b[-1500:]
            res[short] = r
    return res


def run_batch(cfg, harnesses, timeout, jobs, mem_gb=14):
    """one `cargo kani -j` invocation for all harnesses of one configuration (single compile, parallel CBMC runs)"""
    cmd = ["cargo", "kani"] + CFG_FEATURES[cfg] + KANI_FLAGS + ["-Z", "unstable-options", "--harness-timeout", "%ds" % timeout,
           "-j", str(jobs), "--output-format", "terse", "--target-dir", target_dir(cfg)]
    for h in harnesses:
        cmd += ["--harness", h]
    rounds = (len(harnesses) + jobs - 1) // jobs
    rc, out, dt, to = _run(cmd, timeout * rounds + 600, mem_gb)
    parsed = parse_terse(out, harnesses)
    results = []
    extra = set(parsed) - set(harnesses)
    for h in harnesses:
        r = parsed.get(h)
        if r is None:
            r = {"harness": h, "failed": [], "covers": [], "stats": {}, "verdict": None, "raw": out[-2500:]}
        r["cfg"] = cfg
        if extra:
            r["outcome"] = "ERROR"
            r["tail"] = "harness filter matched additional harnesses: %s" % sorted(extra)
        elif r.get("verdict") is None:
            r["outcome"] = "TIMEOUT" if (to or r.get("timeout") or "imed out" in r.get("raw", "")) else "ERROR"
            r["tail"] = r.get("raw", "")[-1500:]
        elif r["verdict"] == "FAILED":
            if r.get("timeout") or (not r["failed"] and "imed out" in r.get("raw", "")):
                r["outcome"] = "TIMEOUT"
            elif r["failed"] and all("unwinding assertion" in f["desc"] for f in r["failed"]):
                r["outcome"] = "UNWIND"
            elif not r["failed"]:
                r["outcome"] = "ERROR"
                r["tail"] = r.get("raw", "")[-1500:]
            else:
                r["outcome"] = "FAIL"
        else:
            st = r["stats"]
            if st.get("covers", 0) == 0 or st.get("covers_satisfied") != st.get("covers"):
                r["outcome"] = "VACUOUS"
            else:
                r["outcome"] = "PASS"
        results.append(r)
    return results, dt, rc, out


def run_many(jobs, workers=None):
    """jobs: list of dicts {cfg, harness, timeout, mem_gb}; one batch invocation per configuration, configurations
    in parallel, the CPU budget divided between them"""
    cfgs = sorted(set(j["cfg"] for j in jobs))
    total = workers or int(os.environ.get("VERIF_JOBS", "0")) or min(16, os.cpu_count() or 4)
    per = max(1, total // max(1, len(cfgs)))
    results, times = [], {}

    def one(cfg):
        hs = [j["harness"] for j in jobs if j["cfg"] == cfg]
        to = max(j.get("timeout", 600) for j in jobs if j["cfg"] == cfg)
        mem = max(j.get("mem_gb", 14) for j in jobs if j["cfg"] == cfg)
        return run_batch(cfg, hs, to, min(per, len(hs)), mem)

    with concurrent.futures.ThreadPoolExecutor(max_workers=len(cfgs) or 1) as ex:
        futs = {c: ex.submit(one, c) for c in cfgs}
        for c, f in futs.items():
            rs, dt, rc, out = f.result()
            times[c] = round(dt, 1)
            if not rs or all(r.get("verdict") is None for r in rs):
                log("[kani batch %s] no results, rc=%s\n%s" % (c, rc, out[-3000:]))
            results += rs
    return results, times
