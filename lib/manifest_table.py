"""Table behind MANIFEST.json (bin/mkmanifest)."""
KNOTE = ("Trusted: Kani/CBMC/CaDiCaL, rustc's MIR for Kani's pinned toolchain, the stubs listed in the evidence (fmt::format; per property: text skip, "
         "from_utf8 ASCII stub, identity leaf stubs), the oracle tables in /verif/kani/src (cross-checked on the repo's golden vectors). "
         "Bounds (lengths, unwind) are stated in the evidence; anything outside is not claimed.")


def k(text, technique, ref):
    return {"engine": "K", "text": text, "note": KNOTE, "technique": technique, "design_ref": ref}


CLAIMED = {
    "C03": k("For every armored string of up to 16 (thorough: 32) characters over all 256 byte values and every fill count 0..=5 the solver shows "
             "unarmor's output equal to an independent bit-window reference (length, every byte, fill bits cleared; error iff a byte is outside the "
             "alphabet), in all three build configurations. Bounded model checking is the right level: the function is a short loop whose interesting "
             "inputs (straddling bytes, fill > bits in final byte, empty input) are single assignments.",
             "Kani/CBMC bounded model checking vs. bit-window reference", "DESIGN.md C03"),
    "C04": k("Per message layout (and layout branch) the whole payload is symbolic and the solver proves every integer / flag / identifier field equal to "
             "bits(payload, offset, width) from the M.1371 tables - jointly for all 2^(8*len) payloads, so independence of neighbours is included.",
             "Kani/CBMC: decoded field == bits(payload, off, width), all payloads", "DESIGN.md C04"),
    "C10": k("Leaf scaling functions verified for every raw value (ULP distance <= 1 from raw/D); per carrying type the solver proves that exactly "
             "sign_extend(bits) reaches the right leaf and its result is stored unmodified; types 17/27 and draught end to end.",
             "Kani/CBMC: float leaves for all raws + integer wiring per type", "DESIGN.md C10"),
    "C11": k("Per optional field: absent <=> raw bits equal the sentinel at the field's own resolution; present values equal the raw bits; all payloads.",
             "Kani/CBMC: is_none() <=> bits == sentinel", "DESIGN.md C11"),
    "C12": k("Every code of every enumerated field against the specification table, injectivity as a two-variable query, round trip of ship types, wiring per type.",
             "Kani/CBMC: code table + injectivity query", "DESIGN.md C12"),
    "C13": k("Decoded text equals a reference 6-bit decode + three explicit trim loops for all 64^k strings, k <= 8 quick / <= 20 thorough, through the real message parsers.",
             "Kani/CBMC: byte-for-byte equality with reference decode+trim", "DESIGN.md C13"),
    "C14": k("Per type a symbolic payload length: rejected iff the mandatory part is missing, element count = complete elements present, every reported value = bits at its position.",
             "Kani/CBMC: symbolic payload length per type", "DESIGN.md C14"),
    "C15": k("Binary payload bytes equal the input bytes after the header, count = length - header, at concrete lengths 0..120 with symbolic contents; no-alloc rejects > 119.",
             "Kani/CBMC: index-wise equality of the passed-through bytes", "DESIGN.md C15"),
    "C16": k("Decoded RadioStatus structurally equal to the SOTDMA/ITDMA reference decode of bits 149..168 for all 2^19 (2^20) states; type 9 is a recorded known finding guarded by a residual harness.",
             "Kani/CBMC: structural equality with comm-state reference", "DESIGN.md C16"),
}
NOT_APPLICABLE = {}
