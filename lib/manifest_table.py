"""Table behind MANIFEST.json (bin/mkmanifest)."""
KNOTE = ("Trusted: Kani/CBMC/CaDiCaL, rustc's MIR for Kani's pinned toolchain, the stubs listed in the evidence (fmt::format; per property: text skip, "
         "from_utf8 ASCII stub, identity leaf stubs), the oracle tables in /verif/kani/src (cross-checked on the repo's golden vectors). "
         "Bounds (lengths, unwind) are stated in the evidence; anything outside is not claimed.")


def k(text, technique, ref):
    return {"engine": "K", "text": text, "note": KNOTE, "technique": technique, "design_ref": ref}


CLAIMED = {
    "C04": k("Per message layout (and layout branch) the whole payload is symbolic and the solver proves every integer / flag / identifier field equal to "
             "bits(payload, offset, width) from the M.1371 tables - jointly for all 2^(8*len) payloads, so independence of neighbours is included.",
             "Kani/CBMC: decoded field == bits(payload, off, width), all payloads", "DESIGN.md C04"),
    "C10": k("Leaf scaling functions verified for every raw value (ULP distance <= 1 from raw/D); per carrying type the solver proves that exactly "
             "sign_extend(bits) reaches the right leaf and its result is stored unmodified; types 17/27 and draught end to end.",
             "Kani/CBMC: float leaves for all raws + integer wiring per type", "DESIGN.md C10"),
    "C11": k("Per optional field: absent <=> raw bits equal the sentinel at the field's own resolution; present values equal the raw bits; all payloads.",
             "Kani/CBMC: is_none() <=> bits == sentinel", "DESIGN.md C11"),
    "C12": k("Every code of every enumerated field against the specification table, injectivity as a two-variable query, round trip of ship types, wiring per type.",
             "Kani/CBMC: code table + injectivity query", "DESIGN.md C12"),
    "C13": k("Decoded text equals a reference 6-bit decode + three explicit trim loops for all 64^k strings, k <= 8 quick / <= 12 thorough, through the real message parsers; the 20-character "
             "fields are decomposed: which bits reach the decoder is proved with a transparent stand-in for it (whole payload symbolic), the decoder itself at k <= 12; "
             "the bit range handed to the decoder is checked separately (range wiring, decoder stubbed by a length-preserving stub) for the variable-length texts at the "
             "1008-bit maximum (156 / 161 characters), around the 20-character capacity and at every truncation length of type 5's destination.",
             "Kani/CBMC: byte-for-byte equality with reference decode+trim + range-wiring harnesses at maximal lengths", "DESIGN.md C13 / 0a"),
    "C14": k("Per type a symbolic payload length: rejected iff the mandatory part is missing, element count = complete elements present, every reported value = bits at its position.",
             "Kani/CBMC: symbolic payload length per type", "DESIGN.md C14"),
    "C15": k("Binary payload bytes equal the input bytes after the header, count = length - header, at concrete lengths 0..120 with symbolic contents; no-alloc rejects > 119.",
             "Kani/CBMC: index-wise equality of the passed-through bytes", "DESIGN.md C15"),
    "C16": k("Decoded RadioStatus structurally equal to the SOTDMA/ITDMA reference decode of bits 149..168 for all 2^19 (2^20) states; type 9 is a recorded known finding guarded by a residual harness.",
             "Kani/CBMC: structural equality with comm-state reference", "DESIGN.md C16"),
}
MNOTE = ("Trusted: the own MIR parser + symbolic executor (lib/mir, fails closed on anything outside its subset), its summary table for core/alloc/heapless callees, "
         "for the text layer the nom semantics table, z3 (+ kissat on bit-blasted queries), the nightly MIR dump. Guards: translator validation on concrete "
         "corpora through the real parser on every run, native replay of every solver model before it is reported, path-exhaustiveness check. Bounds in the evidence.")


def m(text, technique, ref, engine="M"):
    return {"engine": engine, "text": text, "note": MNOTE if engine == "M" else MNOTE + " " + KNOTE, "technique": technique, "design_ref": ref}


CLAIMED.update({
    "C03": m("Two deciders. Kani: for every armored string of up to 16 (thorough: 32) characters over all 256 byte values and every fill count 0..=5 unarmor's output "
             "equals an independent bit-window reference (length, every byte, fill bits cleared; error iff a byte is outside the alphabet), three configurations. "
             "Engine M (layer U): strings of ANY length (n <= 2^32) by loop-invariant queries over unarmor's MIR - base, one arbitrary iteration, exit - with the invariant "
             "generated from the code (scalars linear in the iteration count; output = specification of the prefix, rest zero, for Skolem bit positions); counter-examples "
             "are rebuilt as concrete strings and run through the real function natively before anything is reported. A length-threshold defect (e.g. at 385 characters) is "
             "beyond any unrolling bound; the invariant argument is what reaches it.",
             "Kani/CBMC bounded model checking vs. bit-window reference + MIR->SMT loop-invariant queries (z3, QF_ABV, Skolemised), native confirmation", "DESIGN.md C03 / 0a", "K+M"),
    "C01": m("Totality as the conjunction of bounded panic-freedom results: Kani's built-in checks over arbitrary payloads for unarmor and all 21 message parsers in the "
             "configurations (incl. the heapless capacity edges), and engine M's reachability queries for every MIR assert / unreachable edge of AisParser::parse "
             "(from an arbitrary parser state, three configurations) and of the sentence parser (any line up to N bytes); the hand-over contract between the two layers "
             "(fill count 0..=5) is discharged as a query too and, if it fails, an actual panic is searched for natively. Termination: all encoded bodies are loop-free; "
             "Kani's unwinding assertions bound the payload loops.", "Kani/CBMC built-in checks + MIR->SMT panic-edge reachability (z3)", "DESIGN.md C01", "K+M"),
    "C02": m("The sentence parser and check_checksum executed from MIR on a fully symbolic line: accepted => XOR(up to the first '*') == hex value after it (<= 0xFF); checksum "
             "errors carry (transmitted, computed); well-formed + mismatch => checksum error; match => never a checksum error; plus the state-layer gate (error returned before "
             "any state write, any state).", "MIR->QF_BV symbolic execution of the sentence parser vs. checksum rule (z3/kissat)", "DESIGN.md C02"),
    "C05": m("Inductive one-step queries on the MIR-derived transition relation: a first fragment from ANY parser state opens the group; fragment k+1 after k (any k < 255) yields "
             "Incomplete with its own fields, or - for the last - exactly the unfragmented result for the concatenated payload (same uninterpreted unarmor/parse terms); "
             "rejected / unfragmented lines leave the state unchanged; From<AisFragments> conversions executed symbolically.", "MIR->SMT transition relation, inductive queries (z3 sequences)", "DESIGN.md C05"),
    "C06": m("Bounded histories from a fresh parser against the specification's group monitor (every model replayed on the real library) + an inductive invariant linking parser "
             "state and monitor that makes the claim independent of history length.", "MIR->SMT transition relation, BMC + inductive invariant (z3)", "DESIGN.md C06"),
    "C07": m("Text layer: every field of the accepted sentence equals an independent field extractor over the symbolic line (talker table, report type, numbers with leading zeros, "
             "optional id, channel = first byte, fill, payload slice). State layer: decode flag changes only `message`.", "MIR->QF_BV sentence parser vs. field extractor + MIR->SMT relation (z3/kissat)", "DESIGN.md C07"),
    "C08": m("Two-sided differential between the MIR-derived acceptance condition of the sentence parser and a reference grammar written from the property text, for every byte "
             "string up to N bytes; plus the layer-T postconditions the state layer assumes.", "MIR->QF_BV sentence parser vs. reference grammar, both directions (z3/kissat)", "DESIGN.md C08"),
    "C09": m("The dispatcher's MIR executed for a symbolic 6-bit type with nondeterministic decoders: Ok(variant) only with the variant M.1371 names, carrying its own decoder's value; "
             "unsupported values and the empty payload are errors. Kani leaves: message_type(d) = d[0] >> 2 and every struct's own type field = first six bits.",
             "MIR->SMT dispatcher table check (z3) + Kani leaves", "DESIGN.md C09", "K+M"),
    "C17": m("One arbitrary step from an arbitrary parser state: lines rejected for form / checksum / sequencing / capacity and unfragmented sentences leave all three state fields "
             "unchanged (hence removing such a line changes nothing later, any history length); two-run bounded search for an observable, replayable difference when the one-step query fails; "
             "instance independence from the MIR (only *self, arguments, locals) + source scan.", "MIR->SMT transition relation, one-step metamorphic query + two-run BMC (z3)", "DESIGN.md C17"),
    "C18": m("Relation between runs: the same Kani harnesses against one configuration-independent oracle in std / alloc / no-alloc (verdicts must agree), z3 miters between the "
             "MIR-derived transition relations of the three builds, and the capacity edges (119/120 binary bytes, 20/21 characters, 384 reassembled bytes) as errors.",
             "three-configuration Kani runs + MIR->SMT miters between configurations (z3)", "DESIGN.md C18", "K+M"),
    "C19": m("Query on the MIR-derived sentence parser: sentence.message_type vs the 6-bit value of the first payload character. On the unchanged tree this is SAT for 62 of 64 characters "
             "(recorded known finding, the repair would break four pinned tests); a residual query pins the known behaviour exactly (first byte >> 2) so that any other deviation is reported.",
             "MIR->QF_BV sentence parser query with residual for the known finding (z3) + Kani leaf", "DESIGN.md C19", "K+M"),
    "C20": m("The binary's MIR (main, its closures, parse_nmea_line) executed with nondeterministic environment stubs: no panic edge for any line content / parser outcome, exactly one "
             "stdout record per Complete line, one stderr record per rejected line, none for Incomplete, in order; counter-examples piped into the real binary. The sentence layer's panic edges and its hand-over contract to the payload layer are decided here as well; "
             "a witness line is reported only if the real binary stops on it.",
             "MIR->SMT symbolic execution of the binary with environment stubs (z3), replay through a pipe", "DESIGN.md C20"),
})
NOT_APPLICABLE = {}
