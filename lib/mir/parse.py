"""Parser for rustc's textual MIR dump (-Zunpretty=mir) - the subset the encoded functions use.
Anything it cannot parse raises Unsupported: the check then ends inconclusive, never silently passing."""
import re


class Unsupported(Exception):
    pass


# ---------------------------------------------------------------- lexical helpers

def split_top(s, sep=","):
    """split on sep at nesting depth 0 of () [] {} <> and outside string literals"""
    out, depth, cur, i, n = [], 0, [], 0, len(s)
    instr = False
    while i < n:
        c = s[i]
        if instr:
            cur.append(c)
            if c == "\\" and i + 1 < n:
                cur.append(s[i + 1])
                i += 1
            elif c == '"':
                instr = False
        elif c == '"':
            instr = True
            cur.append(c)
        elif c in "([{":
            depth += 1
            cur.append(c)
        elif c in ")]}":
            depth -= 1
            cur.append(c)
        elif c == "<" :
            # generic bracket unless it is a comparison (MIR has no infix comparisons) or '<<'
            depth += 1
            cur.append(c)
        elif c == ">":
            if i > 0 and s[i - 1] in "-=":      # '->' or '=>'
                cur.append(c)
            else:
                depth -= 1
                cur.append(c)
        elif c == sep and depth == 0:
            out.append("".join(cur).strip())
            cur = []
        else:
            cur.append(c)
        i += 1
    t = "".join(cur).strip()
    if t:
        out.append(t)
    return out


def match_paren(s, i):
    """index of the parenthesis matching s[i] == '('"""
    depth = 0
    instr = False
    j = i
    while j < len(s):
        c = s[j]
        if instr:
            if c == "\\":
                j += 1
            elif c == '"':
                instr = False
        elif c == '"':
            instr = True
        elif c in "([{":
            depth += 1
        elif c in ")]}":
            depth -= 1
            if depth == 0:
                return j
        j += 1
    raise Unsupported("unbalanced parenthesis in %r" % s)


# ---------------------------------------------------------------- places / operands

class Place:
    def __init__(self, local, proj):
        self.local = local          # int
        self.proj = proj            # list of ('field', i, ty) | ('deref',) | ('downcast', name) | ('index', local) | ('constindex', i)

    def __repr__(self):
        return "_%d%s" % (self.local, "".join("." + str(p) for p in self.proj))


def parse_place(s):
    s = s.strip()
    m = re.fullmatch(r"_(\d+)", s)
    if m:
        return Place(int(m.group(1)), [])
    if s.startswith("(") and match_paren(s, 0) == len(s) - 1:
        inner = s[1:-1].strip()
        if inner.startswith("*"):
            p = parse_place(inner[1:])
            return Place(p.local, p.proj + [("deref",)])
        # (place as Variant)
        m = re.fullmatch(r"(.+) as ([A-Za-z_][A-Za-z0-9_]*)", inner)
        if m and not re.search(r"\.\d+: ", inner[len(m.group(1)):]):
            try:
                p = parse_place(m.group(1))
                return Place(p.local, p.proj + [("downcast", m.group(2))])
            except Unsupported:
                pass
        # (place.N: TYPE)   - the place itself may be parenthesised
        if inner.startswith("("):
            j = match_paren(inner, 0)
            base, rest = inner[: j + 1], inner[j + 1:]
        else:
            m2 = re.match(r"_\d+", inner)
            if not m2:
                raise Unsupported("place %r" % s)
            base, rest = m2.group(0), inner[m2.end():]
        m3 = re.match(r"\.(\d+): (.*)$", rest, re.S)
        if m3:
            p = parse_place(base)
            return Place(p.local, p.proj + [("field", int(m3.group(1)), m3.group(2).strip())])
        raise Unsupported("place %r" % s)
    m = re.fullmatch(r"(.+)\[_(\d+)\]", s)
    if m:
        p = parse_place(m.group(1))
        return Place(p.local, p.proj + [("index", int(m.group(2)))])
    m = re.fullmatch(r"(.+)\[(\d+) of (\d+)\]", s)
    if m:
        p = parse_place(m.group(1))
        return Place(p.local, p.proj + [("constindex", int(m.group(2)))])
    raise Unsupported("place %r" % s)


class Operand:
    def __init__(self, kind, val, ty=None):
        self.kind = kind  # 'copy' | 'move' | 'const' | 'fn'
        self.val = val
        self.ty = ty

    def __repr__(self):
        return "%s %r" % (self.kind, self.val)


def parse_operand(s):
    s = s.strip()
    if s.startswith("no_retag "):
        s = s[len("no_retag "):].strip()
    if s.startswith("copy "):
        return Operand("copy", parse_place(s[5:]))
    if s.startswith("move "):
        return Operand("move", parse_place(s[5:]))
    if s.startswith("const "):
        return Operand("const", s[6:].strip())
    # bare path = function item / constant path
    return Operand("fn", s)


# ---------------------------------------------------------------- statements / terminators

BINOPS = {"Eq", "Ne", "Lt", "Le", "Gt", "Ge", "Add", "Sub", "Mul", "Div", "Rem", "BitXor", "BitAnd", "BitOr", "Shl", "Shr",
          "AddWithOverflow", "SubWithOverflow", "MulWithOverflow", "AddUnchecked", "SubUnchecked", "MulUnchecked", "ShlUnchecked",
          "ShrUnchecked", "Offset", "Cmp"}
UNOPS = {"Not", "Neg", "PtrMetadata"}


class Rvalue:
    def __init__(self, kind, **kw):
        self.kind = kind
        self.__dict__.update(kw)

    def __repr__(self):
        return "Rvalue(%s, %s)" % (self.kind, {k: v for k, v in self.__dict__.items() if k != "kind"})


def parse_rvalue(s):
    s = s.strip()
    if s.startswith("no_retag "):
        s = s[len("no_retag "):].strip()
    m = re.match(r"([A-Za-z]+)\((.*)\)$", s, re.S)
    if m and m.group(1) in BINOPS:
        a = split_top(m.group(2))
        if len(a) == 2:
            return Rvalue("binop", op=m.group(1), a=parse_operand(a[0]), b=parse_operand(a[1]))
    if m and m.group(1) in UNOPS:
        return Rvalue("unop", op=m.group(1), a=parse_operand(m.group(2)))
    if m and m.group(1) == "discriminant":
        return Rvalue("discriminant", place=parse_place(m.group(2)))
    if m and m.group(1) == "Len":
        return Rvalue("len", place=parse_place(m.group(2)))
    if s.startswith("&raw const (fake) "):
        return Rvalue("ref", place=parse_place(s[len("&raw const (fake) "):]), mut=False)
    if s.startswith("&raw "):
        raise Unsupported("raw reference %r" % s)
    if s.startswith("&mut "):
        return Rvalue("ref", place=parse_place(s[5:]), mut=True)
    if s.startswith("&"):
        t = s[1:].strip()
        if t.startswith("'"):   # lifetime
            t = t.split(" ", 1)[1]
        return Rvalue("ref", place=parse_place(t), mut=False)
    # cast:  OPERAND as TYPE (Kind)
    m = re.fullmatch(r"((?:copy|move|const) .+) as (.+) \(([A-Za-z]+(?:\(.*\))?)\)", s, re.S)
    if m:
        return Rvalue("cast", a=parse_operand(m.group(1)), ty=m.group(2).strip(), how=m.group(3))
    if s.startswith(("copy ", "move ", "const ")):
        return Rvalue("use", a=parse_operand(s))
    # function item / tuple-variant constructor reified to a fn pointer:  path as fn(..) -> .. (PointerCoercion(ReifyFnPointer..))
    m = re.fullmatch(r"([A-Za-z_<][^ ]*) as (?:unsafe )?fn\(.*\)(?: -> .+)? \(PointerCoercion\(ReifyFnPointer.*\)", s, re.S)
    if m:
        return Rvalue("use", a=Operand("fn", m.group(1)))
    # tuple aggregate
    if s.startswith("(") and match_paren(s, 0) == len(s) - 1:
        inner = s[1:-1].strip()
        items = split_top(inner) if inner else []
        return Rvalue("tuple", items=[parse_operand(x) for x in items])
    if s.startswith("[") and s.endswith("]"):
        inner = s[1:-1]
        if ";" in inner and len(split_top(inner, ";")) == 2:
            a, n = split_top(inner, ";")
            return Rvalue("repeat", a=parse_operand(a), n=n.strip())
        return Rvalue("array", items=[parse_operand(x) for x in split_top(inner)])
    # struct-like aggregate  Path { f: op, .. }   (also closures: {closure@..} { cap: op })
    m = re.fullmatch(r"(.+?) \{ (.*) \}", s, re.S)
    if m and not m.group(1).startswith(("copy", "move")):
        fields = []
        for f in split_top(m.group(2)):
            k, v = f.split(": ", 1)
            fields.append((k.strip(), parse_operand(v)))
        return Rvalue("struct", path=m.group(1).strip(), fields=fields)
    # tuple-variant / tuple-struct aggregate  Path(op, ..)   or unit variant  Path
    m = re.fullmatch(r"([A-Za-z_<][^()]*?(?:<.*>)?[A-Za-z0-9_>:]*)\((.*)\)", s, re.S)
    if m:
        return Rvalue("ctor", path=m.group(1).strip(), items=[parse_operand(x) for x in split_top(m.group(2))])
    if re.fullmatch(r"[A-Za-z_<{][^ ]*(?: as [^ ]+)?[^ ]*", s) or "::" in s:
        return Rvalue("ctor", path=s, items=[])
    raise Unsupported("rvalue %r" % s)


class Stmt:
    def __init__(self, kind, **kw):
        self.kind = kind
        self.__dict__.update(kw)

    def __repr__(self):
        return "Stmt(%s %s)" % (self.kind, {k: v for k, v in self.__dict__.items() if k != "kind"})


class Term:
    def __init__(self, kind, **kw):
        self.kind = kind
        self.__dict__.update(kw)

    def __repr__(self):
        return "Term(%s %s)" % (self.kind, {k: v for k, v in self.__dict__.items() if k != "kind"})


IGNORED_STMT = re.compile(r"^(StorageLive|StorageDead|nop|FakeRead|PlaceMention|AscribeUserType|Retag|Coverage|ConstEvalCounter|Deinit|BackwardIncompatibleDropHint)\b")


def parse_targets(s):
    """'[return: bb1, unwind continue]' / '[0: bb4, 1: bb5, otherwise: bb3]' / '[success: bb5, unwind: bb3]' -> dict"""
    d = {}
    for item in split_top(s.strip()[1:-1]):
        if ":" in item:
            k, v = item.split(":", 1)
            d[k.strip()] = v.strip()
        else:
            d[item.strip()] = None
    return d


def bbnum(s):
    m = re.fullmatch(r"bb(\d+)", s.strip())
    if not m:
        raise Unsupported("block ref %r" % s)
    return int(m.group(1))


def parse_call(s):
    """FUNC(ARGS) where FUNC may contain generic brackets and 'as' paths"""
    s = s.strip()
    # find the last top-level '(' ... ')' pair ending the string
    if not s.endswith(")"):
        raise Unsupported("call %r" % s)
    depth = 0
    i = len(s) - 1
    instr = False
    while i >= 0:
        c = s[i]
        if c == '"':
            instr = not instr
        elif not instr:
            if c in ")]}":
                depth += 1
            elif c in "([{":
                depth -= 1
                if depth == 0:
                    break
        i -= 1
    func = s[:i].strip()
    args = [parse_operand(a) for a in split_top(s[i + 1:-1])] if s[i + 1:-1].strip() else []
    return func, args


def parse_line(line):
    """one statement or terminator (text without trailing ';')"""
    s = line.strip()
    if s.endswith(";"):
        s = s[:-1]
    if IGNORED_STMT.match(s):
        return Stmt("nop")
    if s == "return":
        return Term("return")
    if s == "unreachable":
        return Term("unreachable")
    if s in ("resume", "abort", "terminate", "terminate(cleanup)", "terminate(abi)"):
        return Term("resume")
    m = re.fullmatch(r"goto -> (bb\d+)", s)
    if m:
        return Term("goto", target=bbnum(m.group(1)))
    m = re.fullmatch(r"falseEdge -> \[real: (bb\d+), imaginary: bb\d+\]", s)
    if m:
        return Term("goto", target=bbnum(m.group(1)))
    m = re.fullmatch(r"falseUnwind -> \[real: (bb\d+).*\]", s)
    if m:
        return Term("goto", target=bbnum(m.group(1)))
    m = re.fullmatch(r"switchInt\((.*)\) -> (\[.*\])", s, re.S)
    if m:
        t = parse_targets(m.group(2))
        cases = [(k, bbnum(v)) for k, v in t.items() if k != "otherwise"]
        other = bbnum(t["otherwise"]) if "otherwise" in t else None
        return Term("switch", op=parse_operand(m.group(1)), cases=cases, otherwise=other)
    m = re.fullmatch(r"drop\((.*)\) -> (\[.*\])", s, re.S)
    if m:
        t = parse_targets(m.group(2))
        return Term("drop", place=parse_place(m.group(1)), target=bbnum(t["return"]))
    m = re.fullmatch(r"assert\((.*)\) -> (\[.*\])", s, re.S)
    if m:
        t = parse_targets(m.group(2))
        a = split_top(m.group(1))
        cond = a[0].strip()
        neg = cond.startswith("!")
        if neg:
            cond = cond[1:]
        return Term("assert", cond=parse_operand(cond), expected=not neg, msg=a[1] if len(a) > 1 else "", target=bbnum(t["success"]))
    # call with destination
    m = re.fullmatch(r"(.+?) = (.+) -> (\[.*\]|unwind .*|bb\d+)", s, re.S)
    if m and re.match(r"^(_\d+|\(.*\))$", m.group(1).strip()):
        dest = parse_place(m.group(1))
        func, args = parse_call(m.group(2))
        tg = m.group(3)
        target = None
        if tg.startswith("["):
            t = parse_targets(tg)
            target = bbnum(t["return"]) if t.get("return") else None
        return Term("call", dest=dest, func=func, args=args, target=target)
    m = re.fullmatch(r"(.+\)) -> (\[.*\]|unwind .*|bb\d+)", s, re.S)
    if m and " = " not in m.group(1).split("(")[0]:
        func, args = parse_call(m.group(1))
        tg = m.group(2)
        target = None
        if tg.startswith("["):
            t = parse_targets(tg)
            target = bbnum(t["return"]) if t.get("return") else None
        return Term("call", dest=None, func=func, args=args, target=target)
    m = re.fullmatch(r"discriminant\((.*)\) = (\d+)", s)
    if m:
        return Stmt("setdisc", place=parse_place(m.group(1)), idx=int(m.group(2)))
    # assignment
    i = s.find(" = ")
    if i > 0:
        return Stmt("assign", place=parse_place(s[:i]), rv=parse_rvalue(s[i + 3:]), text=s)
    raise Unsupported("statement %r" % s)


# ---------------------------------------------------------------- functions

class Function:
    def __init__(self, name, header):
        self.name = name
        self.header = header
        self.args = []        # [(local, type)]
        self.ret = None
        self.locals = {}      # local -> type string
        self.blocks = {}      # n -> {"stmts": [...], "term": Term, "cleanup": bool}
        self.raw = {}         # n -> [text lines] (parsed lazily)
        self.span = None      # for closures: 'src/x.rs:L:C: L:C'

    def block(self, n):
        b = self.blocks.get(n)
        if b is None:
            lines = self.raw[n]["lines"]
            stmts, term = [], None
            for ln in lines:
                x = parse_line(ln)
                if isinstance(x, Term):
                    term = x
                elif x.kind != "nop":
                    stmts.append(x)
            if term is None:
                raise Unsupported("block bb%d of %s has no terminator" % (n, self.name))
            b = {"stmts": stmts, "term": term, "cleanup": self.raw[n]["cleanup"]}
            self.blocks[n] = b
        return b


def join_statements(lines):
    """MIR statements may span several lines (long call argument lists); join until ';' at depth 0"""
    out, cur = [], ""
    for ln in lines:
        t = ln.strip()
        if not t or t.startswith("//"):
            continue
        cur = (cur + " " + t).strip() if cur else t
        if cur.endswith(";"):
            out.append(cur)
            cur = ""
    if cur:
        out.append(cur)
    return out


def parse_mir(text):
    """-> dict name -> Function (bodies parsed lazily)"""
    funcs = {}
    lines = text.split("\n")
    i, n = 0, len(lines)
    while i < n:
        ln = lines[i]
        mconst = re.match(r"const (.*::promoted\[\d+\]): (.*) = \{\s*$", ln)
        if mconst:
            j = i + 1
            body = []
            while j < n and lines[j] != "}":
                body.append(lines[j])
                j += 1
            f = parse_function("fn %s() -> %s {" % (mconst.group(1), mconst.group(2)), body)
            funcs[f.name] = f
            i = j + 1
            continue
        if ln.startswith("fn ") and ln.rstrip().endswith("{"):
            hdr = ln
            j = i + 1
            body = []
            while j < n and lines[j] != "}":
                body.append(lines[j])
                j += 1
            f = parse_function(hdr, body)
            funcs[f.name] = f
            i = j + 1
        else:
            i += 1
    return funcs


def parse_function(hdr, body):
    # fn NAME(ARGS) -> RET {
    s = hdr[3:].rstrip()[:-1].rstrip()
    # the argument list is the first top-level '(' whose content starts with '_1: ' or is empty, searched from the right of the name
    # find " -> " at depth 0 from the right
    depth, k, arrow = 0, len(s) - 1, -1
    while k >= 0:
        c = s[k]
        if c in ")]}":
            depth += 1
        elif c in "([{":
            depth -= 1
        elif c == ">" and k > 0 and s[k - 1] == "-" and depth == 0:
            arrow = k - 1
            break
        elif c == ">" and not (k > 0 and s[k - 1] in "-="):
            depth += 1
        elif c == "<":
            depth -= 1
        k -= 1
    if arrow < 0:
        raise Unsupported("function header %r" % hdr)
    ret = s[arrow + 2:].strip()
    left = s[:arrow].rstrip()
    # left = NAME(ARGS)
    depth = 0
    k = len(left) - 1
    while k >= 0:
        c = left[k]
        if c in ")]}":
            depth += 1
        elif c in "([{":
            depth -= 1
            if depth == 0:
                break
        k -= 1
    name = left[:k].strip()
    argstr = left[k + 1:-1]
    f = Function(name, hdr)
    f.ret = ret
    for a in split_top(argstr):
        m = re.match(r"_(\d+): (.*)$", a, re.S)
        if m:
            f.args.append((int(m.group(1)), m.group(2).strip()))
            f.locals[int(m.group(1))] = m.group(2).strip()
    cur = None
    for ln in body:
        m = re.match(r"\s*let (?:mut )?_(\d+): (.*);\s*$", ln)
        if m and cur is None:
            f.locals[int(m.group(1))] = m.group(2).strip()
            continue
        m = re.match(r"\s*bb(\d+)( \(cleanup\))?: \{\s*$", ln)
        if m:
            cur = int(m.group(1))
            f.raw[cur] = {"lines": [], "cleanup": bool(m.group(2))}
            continue
        if cur is not None:
            if ln.strip() == "}":
                f.raw[cur]["lines"] = join_statements(f.raw[cur]["lines"])
                cur = None
            else:
                f.raw[cur]["lines"].append(ln)
    m = re.search(r"\{closure@([^}]*)\}", " ".join(t for _, t in f.args[:1]))
    if m and "{closure#" in name:
        f.span = m.group(1)
    return f


SOURCE_CONSTS = {}
SOURCE_GENERICS = {}      # fn name -> [generic type/const parameter names] (lifetimes left out), from the source      # NAME -> (type, value): integer-literal constants of the crate (filled by scan_source_types)


# ---------------------------------------------------------------- type layout from the crate's source (variant / field order)

def scan_source_types(repo_src):
    """enum name -> [variant names]; struct name -> [field names] from the crate's source files"""
    import os
    enums, structs = {}, {}
    for root, _, files in os.walk(repo_src):
        for fn in files:
            if not fn.endswith(".rs"):
                continue
            txt = open(os.path.join(root, fn)).read()
            txt = re.sub(r"//[^\n]*", "", txt)
            for m in re.finditer(r"\benum\s+([A-Za-z0-9_]+)\s*(?:<[^>{]*>)?\s*\{", txt):
                j = match_paren(txt, m.end() - 1)
                body = txt[m.end():j]
                vs = []
                for item in split_top(body):
                    item = re.sub(r"#\[[^\]]*\]", "", item).strip()
                    mm = re.match(r"([A-Za-z0-9_]+)", item)
                    if mm:
                        vs.append(mm.group(1))
                enums.setdefault(m.group(1), vs)
            for m in re.finditer(r"\bstruct\s+([A-Za-z0-9_]+)\s*(?:<[^>{]*>)?\s*\{", txt):
                j = match_paren(txt, m.end() - 1)
                body = txt[m.end():j]
                fs = []
                for item in split_top(body):
                    item = re.sub(r"#\[[^\]]*\]", "", item).strip()
                    mm = re.match(r"(?:pub(?:\([a-z]+\))?\s+)?([A-Za-z0-9_]+)\s*:", item)
                    if mm:
                        fs.append(mm.group(1))
                structs.setdefault(m.group(1), fs)
    consts = {}
    for root, _, files in os.walk(repo_src):
        for fn in files:
            if fn.endswith(".rs"):
                txt = re.sub(r"//[^\n]*", "", open(os.path.join(root, fn)).read())
                for m in re.finditer(r"\bconst\s+([A-Z][A-Z0-9_]*)\s*:\s*([iu](?:8|16|32|64|size))\s*=\s*([0-9_]+)\s*;", txt):
                    consts.setdefault(m.group(1), (m.group(2), int(m.group(3).replace("_", ""))))
    SOURCE_CONSTS.clear()
    SOURCE_CONSTS.update(consts)
    gens = {}
    for root, _, files in os.walk(repo_src):
        for fn in files:
            if fn.endswith(".rs"):
                txt = re.sub(r"//[^\n]*", "", open(os.path.join(root, fn)).read())
                for m in re.finditer(r"\bfn\s+([A-Za-z0-9_]+)\s*<", txt):
                    i, depth = m.end(), 1
                    while i < len(txt) and depth:
                        if txt[i] == "<":
                            depth += 1
                        elif txt[i] == ">" and txt[i - 1] != "-":
                            depth -= 1
                        i += 1
                    params = []
                    for item in split_top(txt[m.end():i - 1]):
                        item = item.strip()
                        if not item or item.startswith("'"):
                            continue
                        if item.startswith("const "):
                            params.append(item[6:].split(":")[0].strip())
                            continue
                        mm = re.match(r"([A-Za-z_][A-Za-z0-9_]*)", item)
                        if mm:
                            params.append(mm.group(1))
                    if m.group(1) in gens and gens[m.group(1)] != params:
                        gens[m.group(1)] = None       # ambiguous: two generic fns of that name
                    else:
                        gens[m.group(1)] = params
    SOURCE_GENERICS.clear()
    SOURCE_GENERICS.update(gens)
    enums.setdefault("Ordering", ["Less", "Equal", "Greater"])
    enums.setdefault("Option", ["None", "Some"])
    enums.setdefault("Result", ["Ok", "Err"])
    enums.setdefault("ControlFlow", ["Continue", "Break"])
    return enums, structs


def find_by_signature(funcs, arg_types, ret_rx):
    """functions whose argument types (spaces removed) equal arg_types and whose return type matches ret_rx: used when a private
    function of the crate is not found under its usual name (a rename is not a change of behaviour)"""
    want = [a.replace(" ", "") for a in arg_types]
    hit = []
    for n, fn in funcs.items():
        if "{closure" in n or "promoted[" in n:
            continue
        if [t.replace(" ", "") for _, t in fn.args] == want and re.search(ret_rx, (fn.ret or "").replace(" ", "")):
            hit.append(fn)
    return hit


def sentence_parser_fn(funcs):
    f = funcs.get("parse_nmea_sentence")
    if f is None:
        hit = find_by_signature(funcs, ["&[u8]"], r"^(?:std::result::|core::result::)?Result<\(&\[u8\],\(&\[u8\],(?:\w+::)*AisSentence,u8\)\),nom::Err<")
        f = hit[0] if len(hit) == 1 else None
    return f


def checksum_fn(funcs):
    f = next((fn for n, fn in funcs.items() if n.endswith("::check_checksum") or n == "check_checksum"), None)
    if f is None:
        hit = find_by_signature(funcs, ["&[u8]", "u8"], r"^(?:std::result::|core::result::)?Result<u8,(?:\w+::)*Error>$")
        f = hit[0] if len(hit) == 1 else None
    return f
