"""Path-enumerating symbolic executor for loop-free MIR bodies (engine M).

Values
  z3 BitVec / Bool expressions   machine integers (own width) and booleans
  Agg(fields)                    structs, tuples (by field index)
  EnumV(ety, disc, payloads)     enums; disc is a python int or a z3 BitVec(64); payloads: idx -> [fields]
  RefV(frame, local, proj)       references (pointing into a frame of the execution)
  SeqV(expr)                     byte vectors / slices as z3 sequences of (_ BitVec 8)
  Opaque(tag, expr)              values the encoded code only passes around (messages, error strings, ...)
  FnV(name) / ClosureV(span, captures)
Any MIR construct or callee outside the supported subset raises Unsupported -> the check is inconclusive."""
import copy, re
import z3

from .parse import Unsupported, SOURCE_GENERICS, Place, Operand, split_top

BV = z3.BitVecSort
BYTES = z3.SeqSort(z3.BitVecSort(8))


class Agg:
    def __init__(self, fields, tyname=None):
        self.fields = list(fields)
        self.tyname = tyname

    def __repr__(self):
        return "Agg%s%r" % (("<%s>" % self.tyname) if self.tyname else "", self.fields)


class EnumV:
    def __init__(self, ety, disc, payloads):
        self.ety, self.disc, self.payloads = ety, disc, dict(payloads)

    def __repr__(self):
        return "EnumV<%s>(%r, %r)" % (self.ety, self.disc, self.payloads)


class RefV:
    def __init__(self, frame, local, proj):
        self.frame, self.local, self.proj = frame, local, list(proj)

    def __repr__(self):
        return "RefV(f%d _%d %r)" % (self.frame, self.local, self.proj)


class SeqV:
    def __init__(self, e):
        self.e = e

    def __repr__(self):
        return "SeqV(%s)" % self.e


class Opaque:
    def __init__(self, tag, e=None):
        self.tag, self.e = tag, e

    def __repr__(self):
        return "Opaque(%s)" % self.tag


class ArrV:
    """Vec<u8> / [u8] of symbolic length as an SMT array (index: 64-bit) - used where positions are symbolic and unbounded"""
    self_ref = True

    def __init__(self, arr, length):
        self.arr, self.length = arr, length

    def at(self, i):
        if z3.is_bv(i) and i.size() < 64:
            i = z3.ZeroExt(64 - i.size(), i)
        return z3.Select(self.arr, i)

    def store(self, i, v):
        if z3.is_bv(i) and i.size() < 64:
            i = z3.ZeroExt(64 - i.size(), i)
        return ArrV(z3.Store(self.arr, i, v), self.length)

    def length64(self):
        return self.length

    def __repr__(self):
        return "ArrV(len=%s)" % (self.length,)


class IterV(Opaque):
    """core::slice::Iter<'_, u8> over a slice value (kept compatible with the older Opaque("iter", slice) form)"""

    def __init__(self, sl):
        Opaque.__init__(self, "iter", sl)

    def __repr__(self):
        return "IterV(%r)" % (self.e,)


class FnV:
    def __init__(self, name):
        self.name = name

    def __repr__(self):
        return "FnV(%s)" % self.name


class ClosureV(Agg):
    """closure value: its environment is an aggregate of the captures"""

    def __init__(self, span, captures=None):
        Agg.__init__(self, captures or [], "closure")
        self.span = span

    @property
    def captures(self):
        return self.fields

    def __repr__(self):
        return "ClosureV(%s)" % self.span


class Unit:
    def __repr__(self):
        return "()"


UNIT = Unit()


class Uninit:
    def __repr__(self):
        return "<uninit>"


UNINIT = Uninit()


class Panic:
    def __init__(self, msg, where):
        self.msg, self.where = msg, where

    def __repr__(self):
        return "Panic(%s @ %s)" % (self.msg, self.where)


INT_TY = {"u8": (8, False), "u16": (16, False), "u32": (32, False), "u64": (64, False), "usize": (64, False), "u128": (128, False),
          "i8": (8, True), "i16": (16, True), "i32": (32, True), "i64": (64, True), "isize": (64, True), "i128": (128, True),
          "char": (32, False)}


def strip_generics(path):
    out, depth = [], 0
    for c in path:
        if c == "<":
            depth += 1
        elif c == ">":
            depth -= 1
        elif depth == 0:
            out.append(c)
    return "".join(out)


def enum_name_of_type(ty):
    t = ty.strip()
    while t.startswith("&"):
        t = t[1:].strip()
        if t.startswith("mut "):
            t = t[4:]
        if t.startswith("'"):
            t = t.split(" ", 1)[1]
    t = strip_generics(t)
    return t.split("::")[-1].strip()


class State:
    def __init__(self):
        self.frames = []       # list of dict local -> value
        self.pc = []           # list of z3 Bool
        self.ghost = {}        # free-form per-path notes (summaries may record events)

    def clone(self):
        s = State()
        s.frames = [dict(f) for f in self.frames]
        s.pc = list(self.pc)
        s.ghost = copy.copy(self.ghost)
        return s


class Outcome:
    stop = None

    def __init__(self, st, ret=None, panic=None):
        self.st, self.ret, self.panic = st, ret, panic


class Executor:
    def __init__(self, funcs, enums, structs, summaries, max_paths=20000):
        self.funcs, self.enums, self.structs = funcs, enums, structs
        self.summaries = summaries          # list of (regex, fn(ex, st, callee, args, argvals, fctx) -> [Outcome])
        self.solver = z3.Solver()
        self.solver.set("timeout", 5000)
        self._seq_cache = {}
        self.use_solver_pruning = True
        self.unroll = 1              # how often a block may be visited on one path (1 = loop-free bodies only)
        self.fresh_n = 0
        self.max_paths = max_paths
        self.npaths = 0
        self.by_last = {}
        for name in funcs:
            self.by_last.setdefault(name.split("::")[-1], []).append(name)
        self.closures_by_span = {f.span: f for f in funcs.values() if f.span}
        self.blocks_visited = 0
        self.calls_inlined = set()
        self.calls_summarised = set()
        self.loops_accelerated = set()
        self.seq_xor_fold = None      # layer S: symbol standing for the XOR fold of a byte sequence (set by the relation builder)

    # ------------------------------------------------------------ helpers
    def fresh(self, prefix, sort):
        self.fresh_n += 1
        return z3.Const("%s!%d" % (prefix, self.fresh_n), sort)

    def _mentions_seq(self, e):
        k = e.get_id()
        r = self._seq_cache.get(k)
        if r is None:
            r = z3.is_seq(e) or any(self._mentions_seq(c) for c in e.children())
            self._seq_cache[k] = r
        return r

    def path_satisfiable(self, st):
        """exact satisfiability of the whole path condition (used for unwinding assertions)"""
        sv = z3.Solver()
        sv.set("timeout", 20000)
        for c in st.pc:
            sv.add(c)
        return sv.check() != z3.unsat

    def feasible(self, st, extra=None):
        """path pruning only (keeping an infeasible path is harmless): conjuncts over sequences are left out, so that the
        sequence solver is never needed here; `unknown` counts as feasible"""
        if not self.use_solver_pruning:
            return True
        self.solver.push()
        for c in st.pc:
            if not self._mentions_seq(c):
                self.solver.add(c)
        if extra is not None and not self._mentions_seq(extra):
            self.solver.add(extra)
        r = self.solver.check()
        self.solver.pop()
        return r != z3.unsat

    def variant_index(self, ety, vname):
        vs = self.enums.get(ety)
        if vs is None or vname not in vs:
            raise Unsupported("unknown enum variant %s::%s" % (ety, vname))
        return vs.index(vname)

    # ------------------------------------------------------------ types of places / operands
    def place_type(self, f, place):
        ty = f.locals.get(place.local)
        for p in place.proj:
            if p[0] == "field":
                ty = p[2]
            elif p[0] == "deref":
                t = (ty or "").strip()
                if t.startswith("&"):
                    t = t[1:].strip()
                    if t.startswith("'"):
                        t = t.split(" ", 1)[1]
                    if t.startswith("mut "):
                        t = t[4:]
                    ty = t
                else:
                    ty = None
            elif p[0] == "downcast":
                pass
            else:
                ty = None
        return ty

    def operand_type(self, f, op):
        if op.kind in ("copy", "move"):
            return self.place_type(f, op.val)
        if op.kind == "const":
            m = re.fullmatch(r"(-?\d+)_([a-z0-9]+)", op.val)
            if m:
                return m.group(2)
            if op.val in ("true", "false"):
                return "bool"
        return None

    # ------------------------------------------------------------ reading / writing places
    def _get(self, st, frame, val, proj, f):
        for i, p in enumerate(proj):
            if isinstance(val, Uninit):
                raise Unsupported("read of uninitialised place")
            if p[0] == "field":
                if isinstance(val, Agg):
                    if p[1] >= len(val.fields):
                        raise Unsupported("field index out of range")
                    val = val.fields[p[1]]
                else:
                    raise Unsupported("field projection on %r" % (val,))
            elif p[0] == "deref":
                if isinstance(val, RefV):
                    base = st.frames[val.frame].get(val.local, UNINIT)
                    val = self._get(st, val.frame, base, val.proj, f)
                elif isinstance(val, (SeqV, Opaque, ClosureV)) or getattr(val, "self_ref", False) or z3.is_expr(val):
                    pass      # &[u8] / &str / &closure / reference to a scalar: represented by the value itself
                else:
                    raise Unsupported("deref of %r" % (val,))
            elif p[0] == "downcast":
                if not isinstance(val, EnumV):
                    raise Unsupported("downcast of %r" % (val,))
                idx = self.variant_index(val.ety, p[1])
                nxt = proj[i + 1] if i + 1 < len(proj) else None
                if nxt is None or nxt[0] != "field":
                    raise Unsupported("downcast without field")
                pl = val.payloads.get(idx)
                if pl is None:
                    raise Unsupported("read of payload of variant %s::%s that this value does not carry" % (val.ety, p[1]))
                val = Agg(pl)
            elif p[0] == "constindex" and hasattr(val, "at"):
                val = val.at(p[1])
            elif p[0] == "index" and hasattr(val, "at"):
                idx = st.frames[frame].get(p[1], UNINIT)
                if not z3.is_bv(idx):
                    raise Unsupported("index operand %r" % (idx,))
                val = val.at(idx)
            elif p[0] == "aidx" and hasattr(val, "at"):
                val = val.at(p[1])
            else:
                raise Unsupported("projection %r" % (p,))
        return val

    def read_place(self, st, f, place):
        base = st.frames[-1].get(place.local, UNINIT)
        v = self._get(st, len(st.frames) - 1, base, place.proj, f)
        if isinstance(v, Uninit):
            raise Unsupported("read of uninitialised %r in %s" % (place, f.name))
        return v

    def _set(self, st, val, proj, new):
        if not proj:
            return new
        p = proj[0]
        if p[0] == "field":
            if isinstance(val, Uninit):
                val = Agg([UNINIT] * (p[1] + 1))
            if not isinstance(val, Agg):
                raise Unsupported("field write on %r" % (val,))
            fs = list(val.fields)
            while len(fs) <= p[1]:
                fs.append(UNINIT)
            fs[p[1]] = self._set(st, fs[p[1]], proj[1:], new)
            return Agg(fs, val.tyname)
        if p[0] == "deref":
            if isinstance(val, RefV):
                self.write_ref(st, val, proj[1:], new)
                return val
            raise Unsupported("deref write on %r" % (val,))
        if p[0] in ("index", "aidx") and isinstance(val, ArrV):
            idx = st.frames[-1].get(p[1], UNINIT) if p[0] == "index" else p[1]
            if not z3.is_bv(idx) or len(proj) != 1:
                raise Unsupported("array element write with index %r" % (idx,))
            return val.store(idx, new)
        if p[0] == "downcast":
            if not isinstance(val, EnumV):
                raise Unsupported("downcast write on %r" % (val,))
            idx = self.variant_index(val.ety, p[1])
            nxt = proj[1]
            pl = list(val.payloads.get(idx, []))
            while len(pl) <= nxt[1]:
                pl.append(UNINIT)
            pl[nxt[1]] = self._set(st, pl[nxt[1]], proj[2:], new)
            pls = dict(val.payloads)
            pls[idx] = pl
            return EnumV(val.ety, val.disc, pls)
        raise Unsupported("projection write %r" % (p,))

    def write_ref(self, st, ref, proj, new):
        fr = st.frames[ref.frame]
        fr[ref.local] = self._set(st, fr.get(ref.local, UNINIT), ref.proj + list(proj), new)

    def write_place(self, st, f, place, new):
        fr = st.frames[-1]
        fr[place.local] = self._set(st, fr.get(place.local, UNINIT), place.proj, new)

    def deref_val(self, st, v):
        """value a reference points to (slices/opaques are their own referent); follows reference chains"""
        for _ in range(8):
            if isinstance(v, RefV):
                base = st.frames[v.frame].get(v.local, UNINIT)
                v = self._get(st, v.frame, base, v.proj, None)
            else:
                break
        return v

    # ------------------------------------------------------------ operands / rvalues
    def const_val(self, f, text, dest_ty=None):
        t = text.strip()
        m = re.fullmatch(r"(-?\d+)_([a-z0-9]+)", t)
        if m and m.group(2) in INT_TY:
            w, _ = INT_TY[m.group(2)]
            return z3.BitVecVal(int(m.group(1)), w)
        if t == "true":
            return z3.BoolVal(True)
        if t == "false":
            return z3.BoolVal(False)
        if t == "()":
            return UNIT
        if t.startswith('"') or t.startswith('b"'):
            return Opaque("str:" + t)
        m = re.fullmatch(r"ZeroSized: (.*)", t, re.S)
        if m:
            inner = m.group(1).strip()
            mc = re.fullmatch(r"\{closure@(.*)\}", inner, re.S)
            if mc:
                return ClosureV(mc.group(1).strip())
            return FnV(inner)
        m = re.fullmatch(r"'(.)'", t)
        if m:
            return z3.BitVecVal(ord(m.group(1)), 32)
        mc = re.fullmatch(r"\{closure@(.*)\}", t, re.S)
        if mc:
            return ClosureV(mc.group(1).strip())
        if re.search(r"::promoted\[\d+\]$", t):
            return self.promoted(t, f)
        m = re.fullmatch(r"(?:core::num::<impl )?([iu](?:8|16|32|64|128|size))>?::(MAX|MIN|BITS)", t)
        if m:
            w, sg = INT_TY[m.group(1)]
            if m.group(2) == "BITS":
                return z3.BitVecVal(w, 32)
            if m.group(2) == "MAX":
                return z3.BitVecVal((1 << (w - 1)) - 1 if sg else (1 << w) - 1, w)
            return z3.BitVecVal(-(1 << (w - 1)) if sg else 0, w)
        m = re.fullmatch(r"(?:[a-z_][a-z0-9_]*::)*([A-Z][A-Z0-9_]*)", t)
        if m:
            from . import parse as _P
            c = _P.SOURCE_CONSTS.get(m.group(1))
            if c is not None:
                return z3.BitVecVal(c[1], INT_TY[c[0]][0])
        raise Unsupported("constant %r" % t[:120])

    def promoted(self, name, fctx=None):
        """a promoted constant: run its body and strip the references (a reference to a scalar is the scalar)"""
        cands = [n for n in self.funcs if n == name or name.endswith("::" + n)]
        if len(cands) != 1 and fctx is not None:
            # trait impls: the use site spells  <T as Trait>::f::promoted[k],  the definition  mod::<impl at ..>::f::promoted[k]
            k = re.search(r"::promoted\[\d+\]$", name).group(0)
            cands = [n for n in self.funcs if n == fctx.name + k]
        if len(cands) != 1:
            raise Unsupported("promoted constant %s" % name)
        st = State()
        f = self.funcs[cands[0]]
        st2 = st.clone()
        frame = {}
        st2.frames.append(frame)
        # run inline (single block bodies): execute and read _0 before the frame disappears
        outs = self.run_keep(f, st2)
        if len(outs) != 1:
            raise Unsupported("promoted constant %s has %d paths" % (name, len(outs)))
        s3, v = outs[0]
        for _ in range(8):
            if isinstance(v, RefV):
                v = self._get(s3, v.frame, s3.frames[v.frame].get(v.local, UNINIT), v.proj, None)
            else:
                break
        if isinstance(v, RefV):
            raise Unsupported("promoted constant %s: reference chain" % name)
        return v

    def run_keep(self, f, st):
        """execute a straight-line zero-argument body in the frame already pushed on st; returns [(state, value of _0)]"""
        bb, seen = 0, set()
        while True:
            if bb in seen:
                raise Unsupported("loop in promoted constant")
            seen.add(bb)
            blk = f.block(bb)
            for stmt in blk["stmts"]:
                if stmt.kind != "assign":
                    raise Unsupported("statement in promoted constant")
                self.write_place(st, f, stmt.place, self.eval_rvalue(st, f, stmt.rv, self.place_type(f, stmt.place)))
            t = blk["term"]
            if t.kind == "goto":
                bb = t.target
                continue
            if t.kind == "return":
                return [(st, st.frames[-1].get(0, UNIT))]
            if t.kind == "call" and t.target is not None:
                argv = [self.eval_operand(st, f, a) for a in t.args]
                rs = self.call(st, f, t.func, t.args, argv, 0)
                if len(rs) != 1 or rs[0].panic is not None:
                    raise Unsupported("call in promoted constant is not a single value")
                st = rs[0].st
                if t.dest is not None:
                    self.write_place(st, f, t.dest, rs[0].ret)
                bb = t.target
                continue
            raise Unsupported("terminator in promoted constant")

    def eval_operand(self, st, f, op):
        if op.kind in ("copy", "move"):
            return self.read_place(st, f, op.val)
        if op.kind == "const":
            return self.const_val(f, op.val)
        if op.kind == "fn":
            return FnV(op.val)
        raise Unsupported("operand %r" % (op,))

    def is_signed(self, ty):
        return bool(ty) and ty in INT_TY and INT_TY[ty][1]

    def as_bool(self, v):
        if z3.is_bool(v):
            return v
        if z3.is_bv(v):
            return v != 0
        raise Unsupported("expected boolean, got %r" % (v,))

    def eval_rvalue(self, st, f, rv, dest_ty):
        k = rv.kind
        if k == "use":
            return self.eval_operand(st, f, rv.a)
        if k == "ref":
            pl = rv.place
            # a reference to a place: resolve derefs that start the projection so that the ref points at the ultimate storage
            v = RefV(len(st.frames) - 1, pl.local, pl.proj)
            return self.normalize_ref(st, v)
        if k == "binop":
            a, b = self.eval_operand(st, f, rv.a), self.eval_operand(st, f, rv.b)
            ty = self.operand_type(f, rv.a) or self.operand_type(f, rv.b)
            return self.binop(rv.op, a, b, self.is_signed(ty))
        if k == "unop":
            a = self.eval_operand(st, f, rv.a)
            if rv.op == "Not":
                return z3.Not(a) if z3.is_bool(a) else ~a
            if rv.op == "Neg":
                return -a
            if rv.op == "PtrMetadata":
                a = self.deref_val(st, a)
                if hasattr(a, "length64"):
                    return a.length64()
            raise Unsupported("unary op %s on %r" % (rv.op, a))
        if k == "discriminant":
            v = self.read_place(st, f, rv.place)
            if not isinstance(v, EnumV):
                raise Unsupported("discriminant of %r" % (v,))
            d = z3.BitVecVal(v.disc, 64) if isinstance(v.disc, int) else v.disc
            if v.ety == "Ordering":
                d = d - 1            # Less = -1, Equal = 0, Greater = 1
            w = INT_TY[dest_ty.strip()][0] if dest_ty and dest_ty.strip() in INT_TY else 64
            if w < 64:
                d = z3.Extract(w - 1, 0, d)
            return z3.simplify(d) if v.ety == "Ordering" or w < 64 else d
        if k == "cast":
            a = self.eval_operand(st, f, rv.a)
            if rv.how in ("IntToInt",):
                ty = rv.ty.strip()
                if ty not in INT_TY:
                    raise Unsupported("cast to %s" % ty)
                w = INT_TY[ty][0]
                src_ty = self.operand_type(f, rv.a)
                if z3.is_bool(a):
                    return z3.If(a, z3.BitVecVal(1, w), z3.BitVecVal(0, w))
                sw = a.size()
                if w == sw:
                    return a
                if w < sw:
                    return z3.Extract(w - 1, 0, a)
                return z3.SignExt(w - sw, a) if self.is_signed(src_ty) else z3.ZeroExt(w - sw, a)
            if rv.how.startswith("PointerCoercion") or rv.how in ("Transmute", "PtrToPtr"):
                return a
            raise Unsupported("cast kind %s" % rv.how)
        if k in ("tuple", "array"):
            return Agg([self.eval_operand(st, f, x) for x in rv.items])
        if k == "struct":
            return self.make_struct(st, f, rv)
        if k == "ctor":
            return self.make_ctor(st, f, rv, dest_ty)
        if k == "len":
            v = self.read_place(st, f, rv.place)
            if isinstance(v, SeqV):
                return z3.Int2BV(z3.Length(v.e), 64)
            if hasattr(v, "length64"):
                return v.length64()
            raise Unsupported("Len of %r" % (v,))
        raise Unsupported("rvalue kind %s" % k)

    def normalize_ref(self, st, ref):
        """push leading derefs through: &(*_1).0 where _1 is a RefV -> RefV into the referent"""
        fr, local, proj = ref.frame, ref.local, list(ref.proj)
        # an index by a local is frozen at its current value (the reference outlives later changes of that local)
        proj = [("aidx", st.frames[fr].get(p[1], UNINIT)) if p[0] == "index" else p for p in proj]
        if any(p[0] == "aidx" and not z3.is_bv(p[1]) for p in proj):
            raise Unsupported("reference to an element with a non-scalar index")
        while True:
            # find first deref
            idx = next((i for i, p in enumerate(proj) if p[0] == "deref"), None)
            if idx is None:
                return RefV(fr, local, proj)
            base = st.frames[fr].get(local, UNINIT)
            v = self._get(st, fr, base, proj[:idx], None)
            if isinstance(v, RefV):
                fr, local, proj = v.frame, v.local, v.proj + proj[idx + 1:]
            elif isinstance(v, ArrV) and idx + 1 < len(proj):
                raise Unsupported("reference into an array through a slice value")
            elif isinstance(v, (SeqV, Opaque)) or getattr(v, "self_ref", False):
                return v
            else:
                raise Unsupported("reference through %r" % (v,))

    def binop(self, op, a, b, signed):
        if z3.is_bool(a) and z3.is_bool(b):
            if op == "Eq":
                return a == b
            if op == "Ne":
                return a != b
            if op == "BitAnd":
                return z3.And(a, b)
            if op == "BitOr":
                return z3.Or(a, b)
            if op == "BitXor":
                return z3.Xor(a, b)
            raise Unsupported("boolean binop %s" % op)
        if not (z3.is_bv(a) and z3.is_bv(b)):
            raise Unsupported("binop %s on %r, %r" % (op, a, b))
        if op in ("Shl", "Shr", "ShlUnchecked", "ShrUnchecked") and a.size() != b.size():
            b = z3.ZeroExt(a.size() - b.size(), b) if b.size() < a.size() else z3.Extract(a.size() - 1, 0, b)
        if op == "Eq":
            return a == b
        if op == "Ne":
            return a != b
        if op == "Lt":
            return a < b if signed else z3.ULT(a, b)
        if op == "Le":
            return a <= b if signed else z3.ULE(a, b)
        if op == "Gt":
            return a > b if signed else z3.UGT(a, b)
        if op == "Ge":
            return a >= b if signed else z3.UGE(a, b)
        if op in ("Add", "AddUnchecked"):
            return a + b
        if op in ("Sub", "SubUnchecked"):
            return a - b
        if op in ("Mul", "MulUnchecked"):
            return a * b
        if op == "BitXor":
            return a ^ b
        if op == "BitAnd":
            return a & b
        if op == "BitOr":
            return a | b
        if op in ("Shl", "ShlUnchecked"):
            return a << b
        if op in ("Shr", "ShrUnchecked"):
            return (a >> b) if signed else z3.LShR(a, b)
        if op == "Div":
            return a / b if signed else z3.UDiv(a, b)
        if op == "Rem":
            return z3.SRem(a, b) if signed else z3.URem(a, b)
        if op in ("AddWithOverflow", "SubWithOverflow", "MulWithOverflow"):
            w = a.size()
            if op == "AddWithOverflow":
                r = a + b
                ov = z3.Not(z3.BVAddNoOverflow(a, b, signed)) if not signed else z3.Or(z3.Not(z3.BVAddNoOverflow(a, b, True)), z3.Not(z3.BVAddNoUnderflow(a, b)))
            elif op == "SubWithOverflow":
                r = a - b
                ov = z3.ULT(a, b) if not signed else z3.Or(z3.Not(z3.BVSubNoOverflow(a, b)), z3.Not(z3.BVSubNoUnderflow(a, b, True)))
            else:
                r = a * b
                ov = z3.Not(z3.BVMulNoOverflow(a, b, signed)) if not signed else z3.Or(z3.Not(z3.BVMulNoOverflow(a, b, True)), z3.Not(z3.BVMulNoUnderflow(a, b)))
            return Agg([r, ov])
        raise Unsupported("binop %s" % op)

    def make_struct(self, st, f, rv):
        path = strip_generics(rv.path)
        segs = [s for s in path.split("::") if s]
        last = segs[-1]
        vals = {k: self.eval_operand(st, f, v) for k, v in rv.fields}
        mc = re.fullmatch(r"\{closure@(.*)\}", rv.path.strip(), re.S)
        if mc:
            return ClosureV(mc.group(1).strip(), [v for _, v in vals.items()])
        if last in self.structs and (len(segs) < 2 or segs[-2] not in self.enums or last not in self.enums[segs[-2]]):
            order = self.structs[last]
            return Agg([vals.get(n, UNINIT) for n in order], last)
        if len(segs) >= 2 and segs[-2] in self.enums and last in self.enums[segs[-2]]:
            idx = self.enums[segs[-2]].index(last)
            return EnumV(segs[-2], idx, {idx: list(vals.values())})
        if re.fullmatch(r"[A-Z][A-Za-z0-9_]*", last):
            return Agg(list(vals.values()), last)      # library struct (Range, RangeTo, ...): fields in the order written
        raise Unsupported("struct aggregate %s" % rv.path)

    def make_ctor(self, st, f, rv, dest_ty):
        path = strip_generics(rv.path)
        segs = [s.strip() for s in path.split("::") if s.strip()]
        last = segs[-1]
        items = [self.eval_operand(st, f, x) for x in rv.items]
        if len(segs) >= 2 and segs[-2] in self.enums and last in self.enums[segs[-2]]:
            idx = self.enums[segs[-2]].index(last)
            return EnumV(segs[-2], idx, {idx: items})
        # unit / tuple variant referenced without its enum name (use the destination type)
        if dest_ty:
            en = enum_name_of_type(dest_ty)
            if en in self.enums and last in self.enums[en]:
                idx = self.enums[en].index(last)
                return EnumV(en, idx, {idx: items})
        if last in self.structs:
            return Agg(items, last)
        if not rv.items:
            return FnV(rv.path)
        raise Unsupported("constructor %s" % rv.path)

    # ------------------------------------------------------------ function resolution
    def resolve(self, callee):
        """call-site path -> Function defined in the dump, or None"""
        c = callee.strip()
        if c in self.funcs:
            return self.funcs[c]
        if re.match(r"^<&*(?:mut )?(?:[iu](?:8|16|32|64|128|size)|bool|char|str|\[u8\]|f32|f64)(?:\W| as )", c):
            return None          # a trait method of a primitive type is never one of the crate's functions
        plain = strip_generics(c).strip()
        while plain.endswith("::"):
            plain = plain[:-2].strip()
        last = plain.split("::")[-1].strip()
        cands = self.by_last.get(last, [])
        if len(cands) == 1:
            return self.funcs[cands[0]]
        if len(cands) > 1:
            # Type::method  -> definition  mod::<impl at ..>::method  : choose by the type named at the call site
            segs = [s.strip() for s in plain.split("::") if s.strip()]
            if len(segs) >= 2:
                tyname = segs[-2]
                hit = []
                for n in cands:
                    fn = self.funcs[n]
                    a0 = fn.args[0][1] if fn.args else ""
                    if enum_name_of_type(a0) == tyname or enum_name_of_type(fn.ret or "") == tyname:
                        if "<impl at" in n or n == plain:
                            hit.append(n)
                exact = [n for n in cands if n == plain]
                if exact:
                    return self.funcs[exact[0]]
                if len(hit) == 1:
                    return self.funcs[hit[0]]
        return None

    # ------------------------------------------------------------ execution
    def run(self, f, argvals, st, depth=0, subst=None, start_bb=0, stop_at=(), resume=False):
        """execute function f on argvals from state st; returns [Outcome].
        Segments (loop reasoning): with resume=True the top frame of st is f's frame and execution starts at start_bb; a path that
        reaches a block in stop_at (other than as its very first block) ends there with Outcome.stop = that block, frame kept."""
        if depth > 40:
            raise Unsupported("call depth")
        st = st.clone()
        if not resume:
            frame = {}
            if subst:
                frame["__subst"] = subst
            for (loc, _), v in zip(f.args, argvals):
                frame[loc] = v
            st.frames.append(frame)
        outs = []
        work = [(st, start_bb, {})]
        first = True
        while work:
            s, bb, seen = work.pop()
            while True:
                if bb in stop_at and not first:
                    o = Outcome(s)
                    o.stop = bb
                    outs.append(o)
                    break
                first = False
                self.blocks_visited += 1
                key = bb
                cnt = seen.get(key, 0)
                if cnt >= self.unroll:
                    if self.unroll == 1:
                        raise Unsupported("loop in %s at bb%d (only loop-free bodies are encoded here)" % (f.name, bb))
                    # unwinding bound reached: sound only if this path is infeasible (unwinding assertion)
                    if self.path_satisfiable(s):
                        raise Unsupported("unwinding bound %d exceeded in %s at bb%d on a feasible path" % (self.unroll, f.name, bb))
                    break
                seen = dict(seen)
                seen[key] = cnt + 1
                blk = f.block(bb)
                for stmt in blk["stmts"]:
                    if stmt.kind == "assign":
                        dty = self.place_type(f, stmt.place)
                        v = self.eval_rvalue(s, f, stmt.rv, dty)
                        self.write_place(s, f, stmt.place, v)
                    elif stmt.kind == "setdisc":
                        v = self.read_place(s, f, stmt.place)
                        if not isinstance(v, EnumV):
                            raise Unsupported("SetDiscriminant on %r" % (v,))
                        self.write_place(s, f, stmt.place, EnumV(v.ety, stmt.idx, v.payloads))
                    else:
                        raise Unsupported("statement kind %s" % stmt.kind)
                t = blk["term"]
                if t.kind == "goto":
                    bb = t.target
                    continue
                if t.kind == "return":
                    ret = s.frames[-1].get(0, UNIT)
                    s.frames.pop()
                    outs.append(Outcome(s, ret=ret))
                    self.npaths += 1
                    if self.npaths > self.max_paths:
                        raise Unsupported("path budget exceeded")
                    break
                if t.kind == "unreachable":
                    if self.feasible(s):
                        s.frames.pop()
                        outs.append(Outcome(s, panic=Panic("reached `unreachable` terminator", "%s bb%d" % (f.name, bb))))
                    break
                if t.kind == "resume":
                    break
                if t.kind == "drop":
                    bb = t.target
                    continue
                if t.kind == "switch":
                    v = self.eval_operand(s, f, t.op)
                    branches = []
                    if z3.is_bool(v):
                        conds = []
                        for k, tgt in t.cases:
                            c = (z3.Not(v) if int(k) == 0 else v)
                            conds.append(c)
                            branches.append((c, tgt))
                        if t.otherwise is not None:
                            branches.append((z3.Not(z3.Or(*conds)) if conds else z3.BoolVal(True), t.otherwise))
                    elif z3.is_bv(v):
                        conds = []
                        for k, tgt in t.cases:
                            c = v == z3.BitVecVal(int(k), v.size())
                            conds.append(c)
                            branches.append((c, tgt))
                        if t.otherwise is not None:
                            branches.append((z3.Not(z3.Or(*conds)) if conds else z3.BoolVal(True), t.otherwise))
                    else:
                        raise Unsupported("switchInt on %r" % (v,))
                    live = []
                    for c, tgt in branches:
                        c = z3.simplify(c)
                        if z3.is_false(c):
                            continue
                        if z3.is_true(c) or self.feasible(s, c):
                            live.append((c, tgt))
                    if not live:
                        break
                    for c, tgt in live[1:]:
                        s2 = s.clone()
                        if not z3.is_true(c):
                            s2.pc.append(c)
                        work.append((s2, tgt, seen))
                    c, tgt = live[0]
                    if not z3.is_true(c):
                        s.pc.append(c)
                    bb = tgt
                    continue
                if t.kind == "assert":
                    v = self.as_bool(self.eval_operand(s, f, t.cond))
                    ok = v if t.expected else z3.Not(v)
                    bad = z3.simplify(z3.Not(ok))
                    if not z3.is_false(bad) and self.feasible(s, bad):
                        s2 = s.clone()
                        s2.pc.append(bad)
                        s2.frames.pop()
                        outs.append(Outcome(s2, panic=Panic("MIR assert failed: %s" % t.msg, "%s bb%d" % (f.name, bb))))
                    okc = z3.simplify(ok)
                    if z3.is_false(okc) or not self.feasible(s, okc):
                        break
                    if not z3.is_true(okc):
                        s.pc.append(okc)
                    bb = t.target
                    continue
                if t.kind == "call":
                    if self.ITER_NEXT.search(self.norm_callee(t.func.strip())):
                        exit_bb = self.accelerate_loop(s, f, bb, t)
                        if exit_bb is not None:
                            bb = exit_bb
                            continue
                    argv = [self.eval_operand(s, f, a) for a in t.args]
                    results = self.call(s, f, t.func, t.args, argv, depth)
                    cont = []
                    for o in results:
                        if o.panic is not None:
                            o.st.frames = o.st.frames[:len(s.frames) - 1]
                            outs.append(o)
                        elif t.target is None:
                            pass     # diverging call returned?  treat as end of path
                        else:
                            if t.dest is not None:
                                self.write_place(o.st, f, t.dest, o.ret)
                            cont.append(o.st)
                    if not cont:
                        break
                    for s2 in cont[1:]:
                        work.append((s2, t.target, seen))
                    s = cont[0]
                    bb = t.target
                    continue
                raise Unsupported("terminator %s" % t.kind)
        return outs


    # ------------------------------------------------------------ loops over a byte slice
    ITER_NEXT = re.compile(r"^<(?:std::|core::)?slice::Iter<'_, u8> as Iterator>::next$|^<(?:std::|core::)?str::Bytes<'_> as Iterator>::next$")

    @staticmethod
    def _same(a, b):
        if a is b:
            return True
        if z3.is_expr(a) and z3.is_expr(b):
            return a.eq(b)
        return False

    def _run_chain(self, st, f, header_bb, dest, chain, item):
        """one loop iteration on state st: the item is bound, the straight-line body blocks run, then the statements of the
        header (which precede the next call).  Returns False if the body is not straight-line assignments."""
        self.write_place(st, f, dest, EnumV("Option", 1, {1: [item]}))
        for n in chain + [header_bb]:
            blk = f.block(n)
            for stmt in blk["stmts"]:
                if stmt.kind != "assign":
                    return False
                self.write_place(st, f, stmt.place, self.eval_rvalue(st, f, stmt.rv, self.place_type(f, stmt.place)))
        return True

    def accelerate_loop(self, s, f, bb, t):
        """`for x in <byte slice> { straight-line body }` : the loop
               bb:  _o = Iter::next(&mut it) -> A;   A: switchInt(discriminant(_o)) -> [0: exit, 1: body];  body ... -> goto bb
           is replaced by its closed form: the loop-carried scalars are folded over the slice (guarded by position in layer T,
           the layer's XOR-fold symbol in layer S).  Returns the exit block, or None when the loop does not have this shape
           (the caller then executes Iter::next like any other call)."""
        try:
            if t.dest is None or t.target is None or len(t.args) != 1:
                return None
            r = self.eval_operand(s, f, t.args[0])
            it = self.deref_val(s, r)
            if not (isinstance(r, RefV) and isinstance(it, Opaque) and it.tag == "iter"):
                return None
            sl = self.deref_val(s, it.e)
            A = f.block(t.target)
            sw = A["term"]
            if sw.kind != "switch" or len(A["stmts"]) != 1 or A["stmts"][0].kind != "assign" or A["stmts"][0].rv.kind != "discriminant":
                return None
            if A["stmts"][0].rv.place.local != t.dest.local or A["stmts"][0].rv.place.proj or t.dest.proj:
                return None
            cases = dict((int(k), tgt) for k, tgt in sw.cases)
            if set(cases) != {0, 1}:
                return None
            exit_bb, cur = cases[0], cases[1]
            chain = []
            while cur != bb:
                if cur in chain or len(chain) > 16:
                    return None
                blk = f.block(cur)
                if blk["term"].kind != "goto":
                    return None
                chain.append(cur)
                cur = blk["term"].target
            depth_here = len(s.frames) - 1
            before = s.frames[-1]
            # pass 1: which locals does one iteration change?
            s1 = s.clone()
            item1 = self.fresh("item", z3.BitVecSort(8))
            if not self._run_chain(s1, f, bb, t.dest, chain, item1):
                return None
            if len(s1.pc) != len(s.pc):
                return None
            for k in range(depth_here):
                fa, fb = s.frames[k], s1.frames[k]
                if set(fa) != set(fb) or any(not self._same(fa[x], fb[x]) for x in fa):
                    return None          # the body writes through a reference into a caller's frame
            changed = [loc for loc in s1.frames[-1] if not self._same(s1.frames[-1][loc], before.get(loc, UNINIT))]
            carried = [loc for loc in changed if z3.is_expr(before.get(loc, UNINIT))]
            temps = [loc for loc in changed if loc not in carried]
            for loc in temps:
                if loc in before and not isinstance(before[loc], (Uninit, RefV, EnumV)) and loc != t.dest.local:
                    return None
            # pass 2: the step function over fresh symbols
            s2 = s.clone()
            syms = {}
            for loc in carried:
                syms[loc] = self.fresh("carried", before[loc].sort())
                s2.frames[-1][loc] = syms[loc]
            item = self.fresh("item", z3.BitVecSort(8))
            if not self._run_chain(s2, f, bb, t.dest, chain, item) or len(s2.pc) != len(s.pc):
                return None
            step = {}
            for loc in carried:
                v = s2.frames[-1].get(loc)
                if not z3.is_expr(v) or not v.sort().eq(before[loc].sort()):
                    return None
                step[loc] = v
            final = self.fold_slice(sl, [before[loc] for loc in carried], [syms[loc] for loc in carried], item, [step[loc] for loc in carried])
            if final is None:
                return None
            for loc, v in zip(carried, final):
                s.frames[-1][loc] = v
            for loc in temps:
                s.frames[-1].pop(loc, None)      # iteration temporaries: dead after the loop (a later read fails closed)
            self.write_place(s, f, t.dest, EnumV("Option", 0, {}))
            self.write_ref(s, r, [], Opaque("iter-exhausted"))
            self.loops_accelerated.add("%s bb%d" % (f.name, bb))
            # the header's statements (already executed once before the call) and the switch block are skipped: re-establish
            # the discriminant temporary for completeness
            self.write_place(s, f, A["stmts"][0].place, z3.BitVecVal(0, 64))
            return exit_bb
        except Unsupported:
            return None

    def fold_slice(self, sl, inits, syms, item, steps):
        """closed form of folding `steps` (terms over syms and item) over the bytes of sl, starting from inits"""
        def is_plain_xor():
            if len(steps) != 1 or steps[0].sort() != z3.BitVecSort(8):
                return False
            sv = z3.Solver()
            sv.add(steps[0] != (syms[0] ^ item))
            return sv.check() == z3.unsat
        if hasattr(sl, "line") and hasattr(sl.line, "fold"):
            ln = sl.line
            if is_plain_xor() and z3.is_bv_value(z3.simplify(inits[0])) and z3.simplify(inits[0]).as_long() == 0:
                return [ln.fold(sl.s, sl.e, z3.BitVecVal(0, 8), lambda acc, b: acc ^ b, key="xor")]
            cur = list(inits)
            lo, hi = z3.simplify(sl.s), z3.simplify(sl.e)
            for j in range(ln.N):
                pj = z3.BitVecVal(j, lo.size())
                g = z3.And(z3.ULE(lo, pj), z3.ULT(pj, hi))
                sub = list(zip(syms, cur)) + [(item, ln.bytes[j])]
                new = [z3.substitute(e, *sub) for e in steps]
                cur = [z3.If(g, n, c) for n, c in zip(new, cur)]
            return cur
        if isinstance(sl, SeqV) and self.seq_xor_fold is not None:
            if is_plain_xor() and z3.is_bv_value(z3.simplify(inits[0])) and z3.simplify(inits[0]).as_long() == 0:
                v = self.seq_xor_fold(sl)
                return None if v is None else [v]
        return None

    @staticmethod
    def norm_callee(c):
        """one spelling for paths that differ between std and no_std dumps"""
        c = re.sub(r"\b(?:std|core|alloc)::(?:result|option|vec|convert|ops|default|clone|cmp|iter)::", "", c)
        c = re.sub(r"\b(?:core|std)::mem::", "std::mem::", c)
        c = re.sub(r"\bops::control_flow::", "", c)
        c = re.sub(r"\b(?:core::)?slice::<impl", "core::slice::<impl", c)
        c = re.sub(r"(?<![:\w])str::<impl str>", "core::str::<impl str>", c)
        c = re.sub(r"\bheapless::(?:vec::)?Vec", "Vec", c)
        c = re.sub(r"\berrors::err::Error\b", "err::Error", c)
        return c

    @staticmethod
    def last_generic_args(c):
        """type/const arguments written on the last path segment  f::<'_, A, B>  -> ["A", "B"]"""
        c = c.strip()
        if not c.endswith(">"):
            return []
        depth, i = 0, len(c) - 1
        while i >= 0:
            if c[i] == ">" and (i == 0 or c[i - 1] != "-"):
                depth += 1
            elif c[i] == "<":
                depth -= 1
                if depth == 0:
                    break
            i -= 1
        if i < 2 or c[i - 2:i] != "::":
            return []
        from .parse import split_top
        return [a.strip() for a in split_top(c[i + 1:-1]) if a.strip() and not a.strip().startswith("'")]

    def call(self, st, f, callee, args, argv, depth):
        c = self.norm_callee(callee.strip())
        # inside an instance of a generic function: the type parameters stand for the arguments of this instance
        sub = st.frames[-1].get("__subst") if st.frames else None
        if sub:
            for k, v in sub.items():
                c = re.sub(r"\b%s\b" % re.escape(k), v, c)
            c = self.norm_callee(c)
        for rx, fn in self.summaries:
            if rx.search(c):
                self.calls_summarised.add(c if len(c) < 140 else c[:140])
                return fn(self, st, c, args, argv, f)
        target = self.resolve(c)
        if target is not None:
            self.calls_inlined.add(target.name)
            subst = None
            gargs = self.last_generic_args(c)
            params = SOURCE_GENERICS.get(target.name.split("::")[-1])
            if gargs and params and len(params) == len(gargs):
                subst = dict(zip(params, gargs))
            return self.run(target, argv, st, depth + 1, subst=subst)
        # tuple-variant constructor used as a function value (e.g. passed to map)
        segs = [x.strip() for x in strip_generics(c).split("::") if x.strip()]
        if len(segs) >= 2 and segs[-2] in self.enums and segs[-1] in self.enums[segs[-2]]:
            idx = self.enums[segs[-2]].index(segs[-1])
            return [Outcome(st, ret=EnumV(segs[-2], idx, {idx: list(argv)}))]
        raise Unsupported("callee outside the encoded subset: %s (called from %s)" % (c[:200], f.name if f is not None else "a function value"))

    def call_closure(self, st, clo, argvals, depth=0):
        """apply a closure / fn item value to arguments (Fn::call semantics: self by reference)"""
        if isinstance(clo, ClosureV):
            fn = self.closures_by_span.get(clo.span)
            if fn is None:
                raise Unsupported("closure body not found for %s" % clo.span)
            self.calls_inlined.add(fn.name)
            return self.run(fn, [clo] + list(argvals), st, depth + 1)
        if isinstance(clo, FnV):
            # through the summary table / resolution, like a direct call
            return self.call(st, None, clo.name, [None] * len(argvals), list(argvals), depth)
        raise Unsupported("call of %r" % (clo,))
