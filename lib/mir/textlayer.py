"""Layer T: `parse_nmea_sentence` + `check_checksum` executed from their MIR on a fully symbolic line.

The line is an array L of N symbolic bytes with a symbolic length n <= N.  nom's combinators are not executed
from MIR (they are generic library code): the *constructor calls* in the crate's MIR (`take(2)`, `tag(",")`,
`map(p, f)`, `opt(p)`, `verify(p, closure)`, ...) build parser values and the *applications*
(`<closure as Fn>::call(p, (input,))`) evaluate them with the semantics table below (trusted; validated by the
corpus translator validation, by the replay of every model and by the repository's own sentence tests).
Closures and fn items defined in the crate (`|val| *val < 6`, `From<&[u8]> for TalkerId`, `parse_u8_digit`,
the XOR fold closure, ...) are executed from their own MIR."""
import os, re, time
import z3

from . import parse as P
from .exec import (IterV, Executor, State, Agg, EnumV, RefV, SeqV, Opaque, FnV, ClosureV, UNIT, Outcome, Panic, enum_name_of_type)
from .parse import Unsupported, split_top
from .summaries import COMMON, compile_table, ok1

W = 8                        # width of positions (lines of at most 200 bytes)


def fast_and(cs):
    """z3.And without the per-argument coercion of the Python wrapper (path conditions here have hundreds of conjuncts)"""
    cs = list(cs)
    if not cs:
        return z3.BoolVal(True)
    if len(cs) == 1:
        return cs[0]
    ctx = cs[0].ctx
    arr = (z3.Ast * len(cs))(*[c.as_ast() for c in cs])
    return z3.BoolRef(z3.Z3_mk_and(ctx.ref(), len(cs), arr), ctx)


def fast_or(cs):
    cs = list(cs)
    if not cs:
        return z3.BoolVal(False)
    if len(cs) == 1:
        return cs[0]
    ctx = cs[0].ctx
    arr = (z3.Ast * len(cs))(*[c.as_ast() for c in cs])
    return z3.BoolRef(z3.Z3_mk_or(ctx.ref(), len(cs), arr), ctx)


def pos(i):
    return z3.BitVecVal(i, W)


class Line:
    """a fully symbolic line: N byte variables and a symbolic length n <= N (pure bit-vector encoding, no arrays)"""

    def __init__(self, N, sfx=""):
        assert N <= 200
        self.N = N
        self.bytes = [z3.BitVec("L%s_%d" % (sfx, i), 8) for i in range(N)]
        self.n = z3.BitVec("n" + sfx, W)
        self.wf = z3.ULE(self.n, N)
        self._memo = {}

    def at(self, i):
        i = z3.simplify(i)
        if z3.is_bv_value(i):
            v = i.as_long()
            return self.bytes[v] if v < self.N else z3.BitVecVal(0, 8)
        k = ("at", i.get_id())
        r = self._memo.get(k)
        if r is None:
            r = z3.BitVecVal(0, 8)
            for j in range(self.N - 1, -1, -1):
                r = z3.If(i == j, self.bytes[j], r)
            self._memo[k] = r
        return r

    # ---- functional helpers shared by the nom table and the reference oracles (memoised on normalised bounds:
    #      equal scans are the same term, so that only genuinely different position arithmetic is left to the solver)
    def first(self, pred, lo, hi, key=None):
        """least j in [lo, hi) with pred(L[j]), else hi"""
        lo, hi = z3.simplify(lo), z3.simplify(hi)
        k = (key, lo.get_id(), hi.get_id()) if key is not None else None
        if k is not None and k in self._memo:
            return self._memo[k]
        r = hi
        for j in range(self.N - 1, -1, -1):
            pj = pos(j)
            r = z3.If(z3.And(z3.ULE(lo, pj), z3.ULT(pj, hi), pred(self.bytes[j])), pj, r)
        if k is not None:
            self._memo[k] = r
        return r

    def fold(self, lo, hi, init, step, key=None):
        lo, hi = z3.simplify(lo), z3.simplify(hi)
        k = (key, lo.get_id(), hi.get_id()) if key is not None else None
        if k is not None and k in self._memo:
            return self._memo[k]
        acc = init
        for j in range(self.N):
            pj = pos(j)
            acc = z3.If(z3.And(z3.ULE(lo, pj), z3.ULT(pj, hi)), step(acc, self.bytes[j]), acc)
        if k is not None:
            self._memo[k] = acc
        return acc


class width:
    """context manager: positions of W bits while a relation and its queries are built (the gap model needs 16)"""

    def __init__(self, w):
        self.w = w

    def __enter__(self):
        global W
        self.old = W
        W = self.w

    def __exit__(self, *a):
        global W
        W = self.old


class GapLine(Line):
    """a line of N symbolic bytes with a *run* inserted: G copies (G symbolic, up to 60000) of one symbolic byte r at position g.
         real line = bytes[0..g) ++ r^G ++ bytes[g..nc)
    r is restricted to payload characters that are neither digits nor hexadecimal letters, so that numeric scans stop at the run.
    Lines far longer than N are covered this way (any length threshold on a field, a payload or the whole line is crossed by
    some G); what is not covered: long lines whose long part is not one repeated character."""
    G_MAX = 60000

    @property
    def gmax(self):
        return min(self.G_MAX, (1 << W) - 256)

    def __init__(self, N, sfx=""):
        assert N <= 200 and W >= 12
        self.N = N
        self.bytes = [z3.BitVec("L%s_%d" % (sfx, i), 8) for i in range(N)]
        self.nc = z3.BitVec("nc" + sfx, W)
        self.g = z3.BitVec("g" + sfx, W)
        self.G = z3.BitVec("G" + sfx, W)
        self.r = z3.BitVec("r" + sfx, 8)
        self.n = self.nc + self.G
        r = self.r
        run_char = z3.Or(z3.And(z3.UGE(r, 0x3A), z3.ULE(r, 0x40)), z3.And(z3.UGE(r, 0x47), z3.ULE(r, 0x57)), r == 0x60,
                         z3.And(z3.UGE(r, 0x67), z3.ULE(r, 0x77)))
        self.wf = z3.And(z3.ULE(self.nc, N), z3.ULE(self.g, self.nc), z3.ULE(self.G, min(self.G_MAX, (1 << W) - 256)), run_char)
        self._memo = {}

    def _cbyte(self, k):
        """compressed byte k (k a W-bit term)"""
        r = z3.BitVecVal(0, 8)
        for j in range(self.N - 1, -1, -1):
            r = z3.If(k == j, self.bytes[j], r)
        return r

    def at(self, i):
        i = z3.simplify(i)
        k = ("at", i.get_id())
        v = self._memo.get(k)
        if v is None:
            v = z3.If(z3.ULT(i, self.g), self._cbyte(i), z3.If(z3.ULT(i, self.g + self.G), self.r, self._cbyte(i - self.G)))
            self._memo[k] = v
        return v

    def first(self, pred, lo, hi, key=None):
        lo, hi = z3.simplify(lo), z3.simplify(hi)
        k = (key, lo.get_id(), hi.get_id()) if key is not None else None
        if k is not None and k in self._memo:
            return self._memo[k]
        g, G = self.g, self.G
        res = hi
        # suffix (compressed j >= g sits at real position j + G), then the run, then the prefix: later assignments win, so the
        # least real position is chosen
        for j in range(self.N - 1, -1, -1):
            pj = pos(j)
            rp = pj + G
            res = z3.If(z3.And(z3.UGE(pj, g), z3.ULT(pj, self.nc), z3.ULE(lo, rp), z3.ULT(rp, hi), pred(self.bytes[j])), rp, res)
        cand = z3.If(z3.UGT(lo, g), lo, g)
        res = z3.If(z3.And(pred(self.r), z3.ULT(cand, g + G), z3.ULT(cand, hi)), cand, res)
        for j in range(self.N - 1, -1, -1):
            pj = pos(j)
            res = z3.If(z3.And(z3.ULT(pj, g), z3.ULE(lo, pj), z3.ULT(pj, hi), pred(self.bytes[j])), pj, res)
        if k is not None:
            self._memo[k] = res
        return res

    def fold(self, lo, hi, init, step, key=None):
        lo, hi = z3.simplify(lo), z3.simplify(hi)
        k = (key, lo.get_id(), hi.get_id()) if key is not None else None
        if k is not None and k in self._memo:
            return self._memo[k]
        g, G = self.g, self.G
        acc = init
        for j in range(self.N):
            pj = pos(j)
            acc = z3.If(z3.And(z3.ULT(pj, g), z3.ULE(lo, pj), z3.ULT(pj, hi)), step(acc, self.bytes[j]), acc)
        # the run: number of its positions inside [lo, hi)
        a = z3.If(z3.UGT(lo, g), lo, g)
        b = z3.If(z3.ULT(hi, g + G), hi, g + G)
        cnt = z3.If(z3.ULT(a, b), b - a, z3.BitVecVal(0, W))
        if key == "xor":
            acc = z3.If(z3.Extract(0, 0, cnt) == 1, acc ^ self.r, acc)
        else:
            # a general step function cannot be iterated a symbolic number of times: the value is unknown if the run is inside the
            # range (numeric folds never are: the run byte is neither a digit nor a hex letter)
            self._poison = getattr(self, "_poison", 0) + 1
            unknown = z3.BitVec("fold_over_run!%d" % self._poison, acc.size())
            acc = z3.If(cnt == 0, acc, unknown)
        for j in range(self.N):
            pj = pos(j)
            rp = pj + G
            acc = z3.If(z3.And(z3.UGE(pj, g), z3.ULT(pj, self.nc), z3.ULE(lo, rp), z3.ULT(rp, hi)), step(acc, self.bytes[j]), acc)
        if k is not None:
            self._memo[k] = acc
        return acc

    def expand(self, model_eval):
        """the real line of a model"""
        nc = model_eval(self.nc).as_long()
        g = min(model_eval(self.g).as_long(), nc)
        G = model_eval(self.G).as_long()
        r = model_eval(self.r).as_long()
        bs = [model_eval(self.bytes[i]).as_long() for i in range(min(nc, self.N))]
        return bytes(bs[:g]) + bytes([r]) * G + bytes(bs[g:])

    def concrete_subst(self, line):
        """substitution that makes this symbolic line equal to a concrete one: its longest run of an allowed run character is
        mapped to the gap (None if the rest does not fit into N bytes)"""
        allowed = set(range(0x3A, 0x41)) | set(range(0x47, 0x58)) | {0x60} | set(range(0x67, 0x78))
        best = (0, 0)
        i = 0
        while i < len(line):
            j = i
            while j < len(line) and line[j] == line[i]:
                j += 1
            if line[i] in allowed and j - i > best[1]:
                best = (i, j - i)
            i = j
        g, G = best
        rest = line[:g] + line[g + G:]
        if len(rest) > self.N or G > self.G_MAX:
            return None
        rb = line[g] if G > 0 else 0x3A
        return [(self.bytes[i], z3.BitVecVal(rest[i] if i < len(rest) else 0, 8)) for i in range(self.N)] + \
               [(self.nc, pos(len(rest))), (self.g, pos(g)), (self.G, pos(G)), (self.r, z3.BitVecVal(rb, 8))]


def is_digit(b):
    return z3.And(z3.UGE(b, 48), z3.ULE(b, 57))


def is_hex(b):
    return z3.Or(is_digit(b), z3.And(z3.UGE(b, 65), z3.ULE(b, 70)), z3.And(z3.UGE(b, 97), z3.ULE(b, 102)))


def hexval(b):
    return z3.If(is_digit(b), b - 48, z3.If(z3.UGE(b, 97), b - 87, b - 55))


def hex_value(ln, s, q):
    """(digits used, value) of the hex run [s, q): at most the first eight digits are read"""
    s, q = z3.simplify(s), z3.simplify(q)
    k = ("hexvalue", s.get_id(), q.get_id())
    if k in ln._memo:
        return ln._memo[k]
    n_d = q - s
    used = z3.If(z3.ULE(n_d, 8), n_d, pos(8))
    acc = z3.BitVecVal(0, 32)
    for i in range(8):
        acc = z3.If(z3.ULT(pos(i), used), (acc << 4) | z3.ZeroExt(24, hexval(ln.at(s + i))), acc)
    ln._memo[k] = (used, acc)
    return used, acc


class SliceV:
    """&[u8] / &str into the line: [s, e)"""
    self_ref = True

    def __init__(self, line, s, e):
        self.line, self.s, self.e = line, s, e

    def at(self, i):
        if z3.is_bv(i) and i.size() > W:
            i = z3.Extract(W - 1, 0, i)
        return self.line.at(self.s + i)

    def length64(self):
        return z3.ZeroExt(64 - W, self.e - self.s)

    def __repr__(self):
        return "SliceV(%s..%s)" % (self.s, self.e)


class ParserV:
    self_ref = True

    def __init__(self, kind, *args):
        self.kind, self.args = kind, args

    def __repr__(self):
        return "ParserV(%s)" % self.kind


NOM_ERR = "NomErr"      # variants Incomplete(0) Error(1) Failure(2)


def r_ok(rest, val):
    return EnumV("Result", 0, {0: [Agg([rest, val])]})


def r_err(kind, code, where=None):
    return EnumV("Result", 1, {1: [EnumV(NOM_ERR, kind, {kind: [Opaque("nom:%s" % code)]})]})


def fork(ex, st, cond, then_fn, else_fn):
    """two outcomes under cond / not cond (cheap syntactic pruning only)"""
    outs = []
    c = cond
    if not z3.is_false(c):
        s1 = st.clone()
        if not z3.is_true(c):
            s1.pc.append(c)
        outs += then_fn(s1)
    if not z3.is_true(c):
        s2 = st.clone()
        nc = z3.Not(c)
        if not z3.is_false(nc):
            s2.pc.append(nc)
            outs += else_fn(s2)
    return outs


def const_bytes(v):
    if isinstance(v, Opaque) and v.tag.startswith("str:"):
        t = v.tag[4:]
        if t.startswith("b"):
            t = t[1:]
        body = t[1:-1]
        return bytes(body, "latin1").decode("unicode_escape").encode("latin1")
    raise Unsupported("tag/take_until pattern %r" % (v,))


NOM_KINDS = {"map", "map_res", "verify", "opt", "peek", "all_consuming", "alt", "delimited", "terminated", "preceded", "pair", "separated_pair",
             "recognize", "tuple"}


def _fn_item_of_type(t):
    """`for<'a> fn(&'a [u8]) -> .. {path::to::item}`  ->  path::to::item   (None if t is not a fn item type)"""
    t = t.strip()
    if not t.endswith("}") or "fn(" not in t:
        return None
    depth, i = 0, len(t) - 1
    while i >= 0:
        if t[i] == "}":
            depth += 1
        elif t[i] == "{":
            depth -= 1
            if depth == 0:
                break
        i -= 1
    return t[i + 1:-1].strip()


def parser_from_closure_type(span):
    """a zero-sized nom closure constant (all captured parsers are fn items): the combinator and its arguments are in the type name,
    e.g. {closure@map_res<&[u8], .., fn(..) {hex_digit1::<..>}, fn(..) {from_utf8}>::{closure#0}}"""
    m = re.match(r"^(?:nom::(?:bytes|character|number|combinator|sequence|branch)::(?:complete::)?)?([a-z_0-9]+)<(.*)>::\{closure#0\}$", span.strip(), re.S)
    if not m or m.group(1) not in NOM_KINDS:
        return None
    args = []
    for a in split_top(m.group(2)):
        a = a.strip()
        if a.startswith("{closure@") and a.endswith("}"):
            inner = parser_from_closure_type(a[len("{closure@"):-1])
            args.append(inner if inner is not None else ClosureV(a[len("{closure@"):-1]))
        else:
            it = _fn_item_of_type(a)
            if it is not None:
                args.append(FnV(it))
    return ParserV(m.group(1), *args)


def apply(ex, st, p, inp, depth=0):
    """evaluate parser value p on input slice inp -> [Outcome] with IResult values"""
    if depth > 30:
        raise Unsupported("parser nesting")
    if isinstance(p, RefV):
        p = ex.deref_val(st, p)
    if isinstance(p, ClosureV) and not isinstance(p, ParserV) and p.span not in ex.closures_by_span:
        q = parser_from_closure_type(p.span)
        if q is not None:
            p = q
    if isinstance(p, (FnV, ClosureV)) and not isinstance(p, ParserV):
        if isinstance(p, FnV):
            name = ex.norm_callee(p.name)
            for rx, kind in FN_PARSERS:
                if rx.search(name):
                    return apply(ex, st, ParserV(kind), inp, depth + 1)
        return ex.call_closure(st, p, [inp])
    if not isinstance(p, ParserV):
        raise Unsupported("application of %r" % (p,))
    if not isinstance(inp, SliceV):
        raise Unsupported("parser input %r" % (inp,))
    ln, s, e = inp.line, inp.s, inp.e
    k = p.kind
    if k == "take":
        cnt = p.args[0]
        if not z3.is_bv_value(cnt):
            raise Unsupported("take with a symbolic count")
        c = cnt.as_long()
        return fork(ex, st, z3.UGE(e - s, c),
                    lambda s1: [Outcome(s1, ret=r_ok(SliceV(ln, s + c, e), SliceV(ln, s, s + c)))],
                    lambda s2: [Outcome(s2, ret=r_err(1, "Eof"))])
    if k == "tag":
        t = const_bytes(p.args[0])
        m = z3.And(z3.UGE(e - s, len(t)), *[ln.at(s + i) == t[i] for i in range(len(t))])
        return fork(ex, st, m,
                    lambda s1: [Outcome(s1, ret=r_ok(SliceV(ln, s + len(t), e), SliceV(ln, s, s + len(t))))],
                    lambda s2: [Outcome(s2, ret=r_err(1, "Tag"))])
    if k == "take_until":
        t = const_bytes(p.args[0])
        if len(t) != 1:
            raise Unsupported("take_until with a multi-byte pattern")
        q = ln.first(lambda b: b == t[0], s, e, key="eq%d" % t[0])
        return fork(ex, st, z3.ULT(q, e),
                    lambda s1: [Outcome(s1, ret=r_ok(SliceV(ln, q, e), SliceV(ln, s, q)))],
                    lambda s2: [Outcome(s2, ret=r_err(1, "TakeUntil"))])
    if k == "digit1":
        q = ln.first(lambda b: z3.Not(is_digit(b)), s, e, key="nondigit")
        return fork(ex, st, z3.UGT(q, s),
                    lambda s1: [Outcome(s1, ret=r_ok(SliceV(ln, q, e), SliceV(ln, s, q)))],
                    lambda s2: [Outcome(s2, ret=r_err(1, "Digit"))])
    if k == "hex_u32":
        q = ln.first(lambda b: z3.Not(is_hex(b)), s, e, key="nonhex")
        n_d = q - s
        used, acc = hex_value(ln, s, q)
        return fork(ex, st, z3.UGT(q, s),
                    lambda s1: [Outcome(s1, ret=r_ok(SliceV(ln, s + used, e), acc))],
                    lambda s2: [Outcome(s2, ret=r_err(1, "IsA"))])
    if k in ("hex_digit1", "hex_digit0", "digit0", "alpha1", "alphanumeric1"):
        pred = {"hex_digit1": is_hex, "hex_digit0": is_hex, "digit0": is_digit,
                "alpha1": lambda b: z3.Or(z3.And(z3.UGE(b, 65), z3.ULE(b, 90)), z3.And(z3.UGE(b, 97), z3.ULE(b, 122))),
                "alphanumeric1": lambda b: z3.Or(is_digit(b), z3.And(z3.UGE(b, 65), z3.ULE(b, 90)), z3.And(z3.UGE(b, 97), z3.ULE(b, 122)))}[k]
        q = ln.first(lambda b: z3.Not(pred(b)), s, e, key={"hex_digit1": "nonhex", "hex_digit0": "nonhex", "digit0": "nondigit"}.get(k, "non" + k))
        if k.endswith("0"):
            return [Outcome(st, ret=r_ok(SliceV(ln, q, e), SliceV(ln, s, q)))]
        return fork(ex, st, z3.UGT(q, s),
                    lambda s1: [Outcome(s1, ret=r_ok(SliceV(ln, q, e), SliceV(ln, s, q)))],
                    lambda s2: [Outcome(s2, ret=r_err(1, "Class"))])
    if k in ("take_while", "take_while1", "take_till", "take_till1"):
        fnv = p.args[0]
        def pred(b, fnv=fnv):
            outs = call_fn(ex, st, fnv, [b])
            if len(outs) != 1 or outs[0].panic is not None:
                raise Unsupported("byte predicate is not a straight-line function")
            return ex.as_bool(outs[0].ret)
        stop = (lambda b: z3.Not(pred(b))) if k.startswith("take_while") else pred
        q = ln.first(stop, s, e, key=(k[:9], getattr(fnv, "span", None) or getattr(fnv, "name", None)))
        if not k.endswith("1"):
            return [Outcome(st, ret=r_ok(SliceV(ln, q, e), SliceV(ln, s, q)))]
        return fork(ex, st, z3.UGT(q, s),
                    lambda s1: [Outcome(s1, ret=r_ok(SliceV(ln, q, e), SliceV(ln, s, q)))],
                    lambda s2: [Outcome(s2, ret=r_err(1, "TakeWhile1"))])
    if k == "take_while_m_n":
        m_, n_, fnv = p.args
        if not (z3.is_bv_value(m_) and z3.is_bv_value(n_)):
            raise Unsupported("take_while_m_n with symbolic bounds")
        lo_n, hi_n = m_.as_long(), n_.as_long()
        def pred(b, fnv=fnv):
            outs = call_fn(ex, st, fnv, [b])
            if len(outs) != 1 or outs[0].panic is not None:
                raise Unsupported("byte predicate is not a straight-line function")
            return ex.as_bool(outs[0].ret)
        avail = e - s
        lim = z3.If(z3.ULE(avail, hi_n), e, s + hi_n) if hi_n < 256 else e
        q = ln.first(lambda b: z3.Not(pred(b)), s, lim, key=("twmn", getattr(fnv, "span", None) or getattr(fnv, "name", None)))
        return fork(ex, st, z3.UGE(q - s, lo_n),
                    lambda s1: [Outcome(s1, ret=r_ok(SliceV(ln, q, e), SliceV(ln, s, q)))],
                    lambda s2: [Outcome(s2, ret=r_err(1, "TakeWhileMN"))])
    if k in ("is_a", "is_not"):
        t = const_bytes(p.args[0])
        member = lambda b: z3.Or(*[b == c for c in t]) if t else z3.BoolVal(False)
        stop = (lambda b: z3.Not(member(b))) if k == "is_a" else member
        q = ln.first(stop, s, e, key=(k, t))
        return fork(ex, st, z3.UGT(q, s),
                    lambda s1: [Outcome(s1, ret=r_ok(SliceV(ln, q, e), SliceV(ln, s, q)))],
                    lambda s2: [Outcome(s2, ret=r_err(1, "IsA"))])
    if k == "char":
        c = p.args[0]
        if not z3.is_bv_value(c):
            raise Unsupported("char parser with a symbolic character")
        cv = c.as_long()
        if cv > 127:
            raise Unsupported("char parser with a non-ASCII character")
        return fork(ex, st, z3.And(z3.UGT(e, s), ln.at(s) == cv),
                    lambda s1: [Outcome(s1, ret=r_ok(SliceV(ln, s + 1, e), z3.BitVecVal(cv, 32)))],
                    lambda s2: [Outcome(s2, ret=r_err(1, "Char"))])
    if k == "eof":
        return fork(ex, st, e == s,
                    lambda s1: [Outcome(s1, ret=r_ok(inp, SliceV(ln, s, s)))],
                    lambda s2: [Outcome(s2, ret=r_err(1, "Eof"))])
    if k == "rest":
        return [Outcome(st, ret=r_ok(SliceV(ln, e, e), inp))]
    if k == "recognize":
        outs = []
        for o in apply(ex, st, p.args[0], inp, depth + 1):
            if o.panic is None and o.ret.disc == 0:
                rest = o.ret.payloads[0][0].fields[0]
                outs.append(Outcome(o.st, ret=r_ok(rest, SliceV(ln, s, rest.s))))
            else:
                outs.append(o)
        return outs
    if k == "tuple":
        items = p.args[0]
        if not isinstance(items, Agg):
            raise Unsupported("tuple argument %r" % (items,))
        return apply(ex, st, ParserV("pair", *items.fields), inp, depth + 1)
    if k == "anychar":
        return fork(ex, st, z3.UGT(e, s),
                    lambda s1: [Outcome(s1, ret=r_ok(SliceV(ln, s + 1, e), z3.ZeroExt(24, ln.at(s))))],
                    lambda s2: [Outcome(s2, ret=r_err(1, "Eof"))])
    if k == "opt":
        outs = []
        for o in apply(ex, st, p.args[0], inp, depth + 1):
            if o.panic is not None:
                outs.append(o)
                continue
            r = o.ret
            if r.disc == 0:
                rest, v = r.payloads[0][0].fields
                outs.append(Outcome(o.st, ret=r_ok(rest, EnumV("Option", 1, {1: [v]}))))
            elif r.payloads[1][0].disc == 1:
                outs.append(Outcome(o.st, ret=r_ok(inp, EnumV("Option", 0, {}))))
            else:
                outs.append(o)
        return outs
    if k == "alt":
        alts = p.args[0]
        if not isinstance(alts, Agg):
            raise Unsupported("alt argument %r" % (alts,))
        def go(st0, i):
            outs = []
            for o in apply(ex, st0, alts.fields[i], inp, depth + 1):
                if o.panic is not None or o.ret.disc == 0 or o.ret.payloads[1][0].disc != 1 or i + 1 == len(alts.fields):
                    outs.append(o)
                else:
                    outs += go(o.st, i + 1)
            return outs
        return go(st, 0)
    if k in ("delimited", "terminated", "preceded", "pair", "separated_pair"):
        seq = list(p.args)
        def go(st0, cur, i, vals):
            if i == len(seq):
                if k == "delimited":
                    v = vals[1]
                elif k == "terminated":
                    v = vals[0]
                elif k == "preceded":
                    v = vals[1]
                elif k == "separated_pair":
                    v = Agg([vals[0], vals[2]])
                else:
                    v = Agg(vals)
                return [Outcome(st0, ret=r_ok(cur, v))]
            outs = []
            for o in apply(ex, st0, seq[i], cur, depth + 1):
                if o.panic is not None or o.ret.disc == 1:
                    outs.append(o)
                else:
                    rest, v = o.ret.payloads[0][0].fields
                    outs += go(o.st, rest, i + 1, vals + [v])
            return outs
        return go(st, inp, 0, [])
    if k == "peek":
        outs = []
        for o in apply(ex, st, p.args[0], inp, depth + 1):
            if o.panic is None and o.ret.disc == 0:
                outs.append(Outcome(o.st, ret=r_ok(inp, o.ret.payloads[0][0].fields[1])))
            else:
                outs.append(o)
        return outs
    if k == "all_consuming":
        outs = []
        for o in apply(ex, st, p.args[0], inp, depth + 1):
            if o.panic is None and o.ret.disc == 0:
                rest, v = o.ret.payloads[0][0].fields
                outs += fork(ex, o.st, rest.s == rest.e,
                             lambda s1, rest=rest, v=v: [Outcome(s1, ret=r_ok(rest, v))],
                             lambda s2: [Outcome(s2, ret=r_err(1, "Eof"))])
            else:
                outs.append(o)
        return outs
    if k in ("map", "map_res", "verify"):
        inner, fn = p.args
        outs = []
        for o in apply(ex, st, inner, inp, depth + 1):
            if o.panic is not None or o.ret.disc == 1:
                outs.append(o)
                continue
            rest, v = o.ret.payloads[0][0].fields
            if k == "verify":
                # second argument is called with a reference to the value
                for o2 in call_fn(ex, o.st, fn, [v]):
                    if o2.panic is not None:
                        outs.append(o2)
                        continue
                    outs += fork(ex, o2.st, ex.as_bool(o2.ret),
                                 lambda s1, rest=rest, v=v: [Outcome(s1, ret=r_ok(rest, v))],
                                 lambda s2: [Outcome(s2, ret=r_err(1, "Verify"))])
                continue
            for o2 in call_fn(ex, o.st, fn, [v]):
                if o2.panic is not None:
                    outs.append(o2)
                elif k == "map":
                    outs.append(Outcome(o2.st, ret=r_ok(rest, o2.ret)))
                else:
                    r2 = o2.ret
                    if not (isinstance(r2, EnumV) and r2.ety == "Result"):
                        raise Unsupported("map_res function returned %r" % (r2,))
                    if isinstance(r2.disc, int):
                        outs.append(Outcome(o2.st, ret=r_ok(rest, r2.payloads[0][0]) if r2.disc == 0 else r_err(1, "MapRes")))
                    else:
                        outs += fork(ex, o2.st, r2.disc == 0,
                                     lambda s1, rest=rest, r2=r2: [Outcome(s1, ret=r_ok(rest, r2.payloads[0][0]))],
                                     lambda s2: [Outcome(s2, ret=r_err(1, "MapRes"))])
        return outs
    raise Unsupported("nom combinator %s" % k)


def call_fn(ex, st, fn, args):
    """call a function value (crate closure / fn item / library fn with a table entry) on args"""
    if isinstance(fn, ClosureV):
        return ex.call_closure(st, fn, args)
    if isinstance(fn, FnV):
        name = ex.norm_callee(fn.name)
        for rx, h in FN_TABLE:
            if rx.search(name):
                return h(ex, st, name, args)
        return ex.call(st, None, fn.name, [None] * len(args), list(args), 0)
    raise Unsupported("call of %r" % (fn,))


def f_from_utf8(ex, st, name, args):
    # applied to a digit run only: always valid UTF-8; any other use is outside the table
    v = args[0]
    if not isinstance(v, SliceV):
        raise Unsupported("from_utf8 on %r" % (v,))
    v.is_digits = getattr(v, "is_digits", False)
    return [Outcome(st, ret=EnumV("Result", 0, {0: [v]}))]


def f_u8_from_str(ex, st, name, args):
    """u8::from_str on a non-empty run of ASCII digits (what digit1 yields): Ok(value) iff value <= 255"""
    v = args[0]
    if not isinstance(v, SliceV):
        raise Unsupported("from_str on %r" % (v,))
    ln = v.line
    big = z3.BitVecVal(1000, 16)
    val = ln.fold(v.s, v.e, z3.BitVecVal(0, 16), lambda acc, b: z3.If(z3.UGT(acc, 255), big, acc * 10 + z3.ZeroExt(8, b - 48)), key="decimal")
    # the caller guarantees digits; assert it as a side condition of the table entry
    alld = z3.ULE(v.e, ln.first(lambda b: z3.Not(is_digit(b)), v.s, v.e, key="nondigit"))
    st.pc.append(alld)
    d = z3.If(z3.ULE(val, 255), z3.BitVecVal(0, 64), z3.BitVecVal(1, 64))
    return [Outcome(st, ret=EnumV("Result", d, {0: [z3.Extract(7, 0, val)], 1: [Opaque("ParseIntError")]}))]


FN_PARSERS = [(re.compile(r"(?:^|::)hex_digit1::<"), "hex_digit1"),
              (re.compile(r"(?:^|::)hex_digit0::<"), "hex_digit0"),
              (re.compile(r"(?:^|::)digit0::<"), "digit0"),
              (re.compile(r"(?:^|::)alpha1::<"), "alpha1"),
              (re.compile(r"(?:^|::)alphanumeric1::<"), "alphanumeric1"),
              (re.compile(r"(?:^|::)rest::<"), "rest"),
              (re.compile(r"(?:^|::)eof::<"), "eof"),
              (re.compile(r"(?:^|::)digit1::<"), "digit1"),
              (re.compile(r"(?:^|::)hex_u32::<"), "hex_u32"),
              (re.compile(r"(?:^|::)anychar::<"), "anychar")]
def f_byte_class(pred):
    def fn(ex, st, name, args):
        b = args[0]
        if not z3.is_bv(b):
            raise Unsupported("byte classifier on %r" % (b,))
        return [Outcome(st, ret=pred(b))]
    return fn


FN_TABLE = [(re.compile(r"(?:^|::)is_digit$"), f_byte_class(is_digit)),
            (re.compile(r"(?:^|::)is_hex_digit$"), f_byte_class(is_hex)),
            (re.compile(r"(?:^|::)is_alphabetic$"), f_byte_class(lambda b: z3.Or(z3.And(z3.UGE(b, 65), z3.ULE(b, 90)), z3.And(z3.UGE(b, 97), z3.ULE(b, 122))))),
            (re.compile(r"(?:^|::)is_alphanumeric$"), f_byte_class(lambda b: z3.Or(is_digit(b), z3.And(z3.UGE(b, 65), z3.ULE(b, 90)), z3.And(z3.UGE(b, 97), z3.ULE(b, 122))))),
            (re.compile(r"^core::num::<impl u8>::is_ascii_digit$|^core::char::methods::<impl u8>::is_ascii_digit$"), f_byte_class(is_digit)),
            (re.compile(r"^(?:core::str::|std::str::)?from_utf8$|^core::str::converts::from_utf8$"), f_from_utf8),
            (re.compile(r"^<u8 as FromStr>::from_str$|^<u8 as (?:core::str::|std::str::)?FromStr>::from_str$"), f_u8_from_str)]


def s_u8_from_str_radix(ex, st, callee, args, argv, f):
    """u8::from_str_radix(digits, 10 | 16) on a run of digits of that radix (what digit1 / hex_digit1 yield): Ok(value) iff <= 255"""
    v, radix = ex.deref_val(st, argv[0]), argv[1]
    if not isinstance(v, SliceV) or not z3.is_bv_value(radix) or radix.as_long() not in (10, 16):
        raise Unsupported("from_str_radix(%r, %r)" % (v, radix))
    ln, rd = v.line, radix.as_long()
    big = z3.BitVecVal(0x1000, 16)
    if rd == 10:
        val = ln.fold(v.s, v.e, z3.BitVecVal(0, 16), lambda acc, b: z3.If(z3.UGT(acc, 255), big, acc * 10 + z3.ZeroExt(8, b - 48)), key="decimal")
        ok_digits = z3.ULE(v.e, ln.first(lambda b: z3.Not(is_digit(b)), v.s, v.e, key="nondigit"))
    else:
        val = ln.fold(v.s, v.e, z3.BitVecVal(0, 16), lambda acc, b: z3.If(z3.UGT(acc, 255), big, (acc << 4) | z3.ZeroExt(8, hexval(b))), key="hexfull")
        ok_digits = z3.ULE(v.e, ln.first(lambda b: z3.Not(is_hex(b)), v.s, v.e, key="nonhex"))
    st.pc.append(z3.And(ok_digits, z3.UGT(v.e, v.s)))      # side condition of the table entry: a non-empty run of digits
    d = z3.If(z3.ULE(val, 255), z3.BitVecVal(0, 64), z3.BitVecVal(1, 64))
    return [Outcome(st, ret=EnumV("Result", d, {0: [z3.Extract(7, 0, val)], 1: [Opaque("ParseIntError")]}))]


# ---------------------------------------------------------------- slice operations (for code that handles the line itself)

def _sl(ex, st, v):
    v = ex.deref_val(st, v)
    if not isinstance(v, SliceV):
        raise Unsupported("slice operation on %r" % (type(v).__name__,))
    return v


def _w(x):
    """usize -> position width"""
    return z3.Extract(W - 1, 0, x) if x.size() > W else x


def s_slice_is_empty(ex, st, callee, args, argv, f):
    v = _sl(ex, st, argv[0])
    return ok1(st, v.e == v.s)


def s_slice_len(ex, st, callee, args, argv, f):
    return ok1(st, _sl(ex, st, argv[0]).length64())


def s_slice_index_range(ex, st, callee, args, argv, f):
    v, r = _sl(ex, st, argv[0]), argv[1]
    ln64 = v.length64()
    if not isinstance(r, Agg):
        raise Unsupported("slice index with %r" % (r,))
    kind = r.tyname
    if kind == "RangeTo":
        lo, hi = z3.BitVecVal(0, 64), r.fields[0]
    elif kind == "RangeFrom":
        lo, hi = r.fields[0], ln64
    elif kind == "Range":
        lo, hi = r.fields[0], r.fields[1]
    else:
        raise Unsupported("slice index with %s" % kind)
    okc = z3.And(z3.ULE(lo, hi), z3.ULE(hi, ln64))
    outs = []
    s1, s2 = st.clone(), st.clone()
    s1.pc.append(okc)
    outs.append(Outcome(s1, ret=SliceV(v.line, v.s + _w(lo), v.s + _w(hi))))
    s2.pc.append(z3.Not(okc))
    outs.append(Outcome(s2, panic=Panic("slice index out of range", callee)))
    return outs


def s_slice_get_last(ex, st, callee, args, argv, f):
    v = _sl(ex, st, argv[0])
    which = callee.rsplit("::", 1)[-1]
    d = z3.If(v.e == v.s, z3.BitVecVal(0, 64), z3.BitVecVal(1, 64))
    b = v.at(0) if which == "first" else v.line.at(v.e - 1)
    return ok1(st, EnumV("Option", d, {1: [b]}))


def s_slice_split_first(ex, st, callee, args, argv, f):
    v = _sl(ex, st, argv[0])
    which = callee.rsplit("::", 1)[-1]
    d = z3.simplify(z3.If(v.e == v.s, z3.BitVecVal(0, 64), z3.BitVecVal(1, 64)))
    if which == "split_first":
        pair = Agg([v.at(0), SliceV(v.line, v.s + 1, v.e)])
    else:
        pair = Agg([v.line.at(v.e - 1), SliceV(v.line, v.s, v.e - 1)])
    return ok1(st, EnumV("Option", d, {1: [pair]}))


def _byte_pred(ex, st, clo, by_ref=True):
    """the closure |&b| -> bool as a function on byte terms (run once on a fresh symbol; must be straight-line)"""
    x = z3.BitVec("pred_arg!%d" % id(clo), 8)
    outs = ex.call_closure(st, clo, [x])
    if len(outs) != 1 or outs[0].panic is not None or len(outs[0].st.pc) != len(st.pc):
        raise Unsupported("byte predicate closure is not a straight-line function")
    r = outs[0].ret
    if z3.is_bv(r):
        r = r != 0
    return lambda b: z3.substitute(r, (x, b))


def _iter_slice(ex, st, it):
    it = ex.deref_val(st, it)
    sl = ex.deref_val(st, it.e) if isinstance(it, Opaque) and it.tag == "iter" else None
    if not isinstance(sl, SliceV):
        raise Unsupported("iterator over %r" % (it,))
    return sl


def s_iter_position(ex, st, callee, args, argv, f):
    sl = _iter_slice(ex, st, argv[0])
    pred = _byte_pred(ex, st, argv[1])
    q = sl.line.first(pred, sl.s, sl.e)
    d = z3.simplify(z3.If(z3.ULT(q, sl.e), z3.BitVecVal(1, 64), z3.BitVecVal(0, 64)))
    # the iterator is left after the found element (or exhausted)
    if isinstance(argv[0], RefV):
        ex.write_ref(st, argv[0], [], IterV(SliceV(sl.line, z3.If(z3.ULT(q, sl.e), q + 1, sl.e), sl.e)))
    return ok1(st, EnumV("Option", d, {1: [z3.ZeroExt(64 - W, q - sl.s)]}))


def s_iter_any_all(ex, st, callee, args, argv, f):
    sl = _iter_slice(ex, st, argv[0])
    pred = _byte_pred(ex, st, argv[1])
    which = callee.split("::<")[0].rsplit("::", 1)[-1]
    if which == "any":
        q = sl.line.first(pred, sl.s, sl.e)
        return ok1(st, z3.ULT(q, sl.e))
    q = sl.line.first(lambda b: z3.Not(pred(b)), sl.s, sl.e)
    return ok1(st, q == sl.e)


def s_slice_contains(ex, st, callee, args, argv, f):
    v = _sl(ex, st, argv[0])
    x = ex.deref_val(st, argv[1])
    if not z3.is_bv(x):
        raise Unsupported("contains(%r)" % (x,))
    q = v.line.first(lambda b: b == x, v.s, v.e)
    return ok1(st, z3.ULT(q, v.e))


def s_slice_get(ex, st, callee, args, argv, f):
    v, i = _sl(ex, st, argv[0]), argv[1]
    if not z3.is_bv(i):
        raise Unsupported("slice get(%r)" % (i,))
    d = z3.simplify(z3.If(z3.ULT(i, v.length64()), z3.BitVecVal(1, 64), z3.BitVecVal(0, 64)))
    return ok1(st, EnumV("Option", d, {1: [v.at(i)]}))


def _slice_eq_term(ex, st, a, b):
    a, b = ex.deref_val(st, a), ex.deref_val(st, b)
    if isinstance(a, Opaque) and isinstance(b, SliceV):
        a, b = b, a
    if isinstance(a, SliceV) and isinstance(b, Opaque):
        lit = const_bytes(b)
        return z3.And(a.e - a.s == len(lit), *[a.at(pos(i)) == c for i, c in enumerate(lit)])
    if isinstance(a, SliceV) and isinstance(b, Agg) and all(z3.is_bv(x) for x in b.fields):
        return z3.And(a.e - a.s == len(b.fields), *[a.at(pos(i)) == c for i, c in enumerate(b.fields)])
    if isinstance(a, SliceV) and isinstance(b, SliceV):
        if a.line is not b.line:
            raise Unsupported("comparison of slices of different lines")
        n = a.e - a.s
        return z3.And(n == b.e - b.s, *[z3.Or(z3.UGE(pos(i), n), a.at(pos(i)) == b.at(pos(i))) for i in range(a.line.N)])
    raise Unsupported("slice comparison %r == %r" % (a, b))


def s_slice_eq(ex, st, callee, args, argv, f):
    e = _slice_eq_term(ex, st, argv[0], argv[1])
    return ok1(st, z3.Not(e) if callee.rstrip().endswith("::ne") else e)


def s_slice_starts_with(ex, st, callee, args, argv, f):
    a, b = _sl(ex, st, argv[0]), ex.deref_val(st, argv[1])
    lit = const_bytes(b) if isinstance(b, Opaque) else None
    if lit is None:
        raise Unsupported("starts_with(%r)" % (b,))
    which = callee.rsplit("::", 1)[-1]
    n = len(lit)
    if which == "starts_with":
        return ok1(st, z3.And(z3.UGE(a.e - a.s, n), *[a.at(pos(i)) == c for i, c in enumerate(lit)]))
    return ok1(st, z3.And(z3.UGE(a.e - a.s, n), *[a.line.at(a.e - n + i) == c for i, c in enumerate(lit)]))


def s_str_as_bytes(ex, st, callee, args, argv, f):
    return ok1(st, _sl(ex, st, argv[0]))


def s_str_bytes(ex, st, callee, args, argv, f):
    return ok1(st, IterV(_sl(ex, st, argv[0])))


SLICE_OPS = [
    (r"^core::slice::<impl \[u8\]>::(?:split_first|split_last)$", s_slice_split_first),
    (r"^<(?:std::|core::)?slice::Iter<'_, u8> as Iterator>::position::<", s_iter_position),
    (r"^<(?:std::|core::)?slice::Iter<'_, u8> as Iterator>::(?:any|all)::<", s_iter_any_all),
    (r"^core::slice::<impl \[u8\]>::contains$", s_slice_contains),
    (r"^core::slice::<impl \[u8\]>::get::<usize>$", s_slice_get),
    (r"^<&?\[u8\] as PartialEq<&?\[u8(?:; \d+)?\]>>::(?:eq|ne)$|^<&?str as PartialEq<&?str>>::(?:eq|ne)$", s_slice_eq),
    (r"^core::slice::<impl \[u8\]>::(?:starts_with|ends_with)$", s_slice_starts_with),
    (r"^core::str::<impl str>::as_bytes$", s_str_as_bytes),
    (r"^core::str::<impl str>::bytes$", s_str_bytes),

    (r"^core::slice::<impl \[u8\]>::is_empty$", s_slice_is_empty),
    (r"^core::slice::<impl \[u8\]>::len$", s_slice_len),
    (r"^<\[u8\] as Index<Range(?:To|From)?<usize>>>::index$", s_slice_index_range),
    (r"^core::slice::<impl \[u8\]>::(?:first|last)$", s_slice_get_last),
]


def constructor(kind, nargs):
    def fn(ex, st, callee, args, argv, f):
        return ok1(st, ParserV(kind, *argv[:nargs]))
    return fn


def ite_val(c, a, b):
    """value-level if-then-else (for merging the outcomes of one parser application)"""
    if a is b:
        return a
    if isinstance(a, SliceV) and isinstance(b, SliceV):
        return SliceV(a.line, z3.If(c, a.s, b.s), z3.If(c, a.e, b.e))
    if z3.is_expr(a) and z3.is_expr(b):
        return z3.If(c, a, b)
    if isinstance(a, EnumV) and isinstance(b, EnumV) and a.ety == b.ety:
        da = z3.BitVecVal(a.disc, 64) if isinstance(a.disc, int) else a.disc
        db = z3.BitVecVal(b.disc, 64) if isinstance(b.disc, int) else b.disc
        pl = {}
        for k in set(a.payloads) | set(b.payloads):
            fa, fb = a.payloads.get(k), b.payloads.get(k)
            if fa is None or fb is None or len(fa) != len(fb):
                pl[k] = fa if fa is not None else fb
            else:
                pl[k] = [ite_val(c, x, y) for x, y in zip(fa, fb)]
        if isinstance(a.disc, int) and isinstance(b.disc, int) and a.disc == b.disc:
            return EnumV(a.ety, a.disc, pl)
        # (no simplify here: c is the whole path condition of one outcome and simplifying it again and again dominated the run time)
        d = da if da.eq(db) else z3.If(c, da, db)
        return EnumV(a.ety, d, pl)
    if isinstance(a, Agg) and isinstance(b, Agg) and len(a.fields) == len(b.fields):
        return Agg([ite_val(c, x, y) for x, y in zip(a.fields, b.fields)], a.tyname)
    if isinstance(a, Opaque) and isinstance(b, Opaque):
        return a
    if type(a) is type(b) and not isinstance(a, (RefV,)):
        return a
    raise Unsupported("cannot merge values of kinds %s and %s" % (type(a).__name__, type(b).__name__))


def merge_outcomes(st, outs):
    """one parser application is a deterministic function of the line: merge its outcomes into at most one Ok, one
    recoverable error and one failure (conditions are mutually exclusive)"""
    base = len(st.pc)
    groups = {}
    keep = []
    panics = {}
    for o in outs:
        if o.panic is not None:
            # one outcome per panic site: the disjunction of the conditions under which it is reached
            cond = fast_and(o.st.pc[base:])
            panics.setdefault((o.panic.msg, o.panic.where), []).append((cond, o))
            continue
        r = o.ret
        key = "ok" if r.disc == 0 else "err%d" % r.payloads[1][0].disc
        cond = fast_and(o.st.pc[base:])
        groups.setdefault(key, []).append((cond, o))
    res = []
    for key, items in groups.items():
        if len(items) == 1:
            res.append(items[0][1])
            continue
        conds = [c for c, _ in items]
        val = items[-1][1].ret
        for c, o in reversed(items[:-1]):
            val = ite_val(c, o.ret, val)
        s2 = st.clone()
        s2.pc.append(fast_or(conds))
        res.append(Outcome(s2, ret=val))
    for (msg, where), items in panics.items():
        if len(items) == 1:
            keep.append(items[0][1])
            continue
        c = fast_or([c for c, _ in items])
        if z3.is_false(c):
            continue
        s2 = st.clone()
        s2.frames = items[0][1].st.frames
        s2.pc.append(c)
        keep.append(Outcome(s2, panic=items[0][1].panic))
    return res + keep


def s_apply(ex, st, callee, args, argv, f):
    p, tup = argv
    if not isinstance(tup, Agg) or len(tup.fields) != 1:
        raise Unsupported("parser application arguments %r" % (tup,))
    return merge_outcomes(st, apply(ex, st, p, tup.fields[0]))


def build_table(extra):
    nomp = r"^(?:nom::(?:bytes|character|number|combinator|sequence|branch|multi)::(?:complete::)?)?"
    ent = [
        (nomp + r"take::<", constructor("take", 1)),
        (nomp + r"tag::<", constructor("tag", 1)),
        (nomp + r"take_until::<", constructor("take_until", 1)),
        (nomp + r"map::<", constructor("map", 2)),
        (nomp + r"map_res::<", constructor("map_res", 2)),
        (nomp + r"verify::<", constructor("verify", 2)),
        (nomp + r"opt::<", constructor("opt", 1)),
        (nomp + r"peek::<", constructor("peek", 1)),
        (nomp + r"all_consuming::<", constructor("all_consuming", 1)),
        (nomp + r"alt::<", constructor("alt", 1)),
        (nomp + r"delimited::<", constructor("delimited", 3)),
        (nomp + r"terminated::<", constructor("terminated", 2)),
        (nomp + r"preceded::<", constructor("preceded", 2)),
        (nomp + r"pair::<", constructor("pair", 2)),
        (nomp + r"separated_pair::<", constructor("separated_pair", 3)),
        (nomp + r"tuple::<", constructor("tuple", 1)),
        (nomp + r"recognize::<", constructor("recognize", 1)),
        (nomp + r"take_while_m_n::<", constructor("take_while_m_n", 3)),
        (nomp + r"take_while::<", constructor("take_while", 1)),
        (nomp + r"take_while1::<", constructor("take_while1", 1)),
        (nomp + r"take_till::<", constructor("take_till", 1)),
        (nomp + r"take_till1::<", constructor("take_till1", 1)),
        (nomp + r"is_a::<", constructor("is_a", 1)),
        (nomp + r"is_not::<", constructor("is_not", 1)),
        (nomp + r"char::<", constructor("char", 1)),
        (r"^core::num::<impl u8>::from_str_radix$", s_u8_from_str_radix),
        (r"^<u8 as FromStr>::from_str$|^core::str::<impl str>::parse::<u8>$", lambda ex, st, c, a, v, f: f_u8_from_str(ex, st, c, [v[0]])),
        (r"^<\{closure@.*\} as Fn(?:Mut|Once)?<\(&\[u8\],\)>>::call(?:_mut|_once)?$", s_apply),
        (r"^<&\[u8\] as Into<(?:std::vec::)?Vec<u8>>>::into$|^<&\[u8\] as (?:std::convert::)?Into<Vec<u8>>>::into$", lambda ex, st, c, a, v, f: ok1(st, v[0])),
    ]
    return compile_table(ent + extra + SLICE_OPS + COMMON)
