"""Summaries ("semantics table") for callees that are not encoded from their own MIR: core / alloc / heapless
library functions with a one-line contract.  Every entry is part of the trusted base and is listed in the evidence."""
import re
import z3

from .exec import (IterV, Agg, EnumV, RefV, SeqV, Opaque, FnV, ClosureV, UNIT, Outcome, Panic, BYTES, enum_name_of_type, strip_generics)
from .parse import Unsupported

B8 = z3.BitVecSort(8)


def ok1(st, v):
    return [Outcome(st, ret=v)]


def disc_expr(v):
    return z3.BitVecVal(v.disc, 64) if isinstance(v.disc, int) else v.disc


def result_generic_names(callee):
    """names of the generic arguments in  <Result<A, B> as Trait<..>>::f  (best effort, for tagging)"""
    return callee


def s_try_branch(ex, st, callee, args, argv, f):
    """<Result<T,E> as Try>::branch / <Option<T> as Try>::branch"""
    v = argv[0]
    if not isinstance(v, EnumV):
        raise Unsupported("Try::branch on %r" % (v,))
    if v.ety == "Result":
        pl = {}
        if 0 in v.payloads:
            pl[0] = list(v.payloads[0])
        if 1 in v.payloads:
            pl[1] = [EnumV("Result", 1, {1: list(v.payloads[1])})]
        return ok1(st, EnumV("ControlFlow", v.disc, pl))
    if v.ety == "Option":
        pl = {}
        if 1 in v.payloads:
            pl[0] = list(v.payloads[1])
        pl[1] = [EnumV("Option", 0, {})]
        d = v.disc
        nd = (1 - d) if isinstance(d, int) else (1 - d)
        return ok1(st, EnumV("ControlFlow", nd, pl))
    raise Unsupported("Try::branch on %s" % v.ety)


def to_crate_error(ex, st, e, why):
    """From<..> for errors::Error : a value that already is the crate's Error is kept, anything else becomes Error::Nmea"""
    if isinstance(e, EnumV) and e.ety == "Error":
        return e
    return EnumV("Error", 0, {0: [Opaque("nmea-msg:" + why)]})


def s_from_residual(ex, st, callee, args, argv, f):
    v = argv[0]
    if not (isinstance(v, EnumV) and v.ety == "Result"):
        raise Unsupported("from_residual on %r" % (v,))
    e = v.payloads.get(1, [Opaque("?")])[0]
    # target error type: the first generic argument list of the callee names the result type
    m = re.match(r"<(?:std::result::)?Result<(.*)> as", callee)
    target_is_crate_error = bool(m) and "err::Error" in m.group(1)
    if target_is_crate_error:
        e = to_crate_error(ex, st, e, "converted from a nom error")
    return ok1(st, EnumV("Result", 1, {1: [e]}))


def s_option_u8_ne(ex, st, callee, args, argv, f):
    a, b = ex.deref_val(st, argv[0]), ex.deref_val(st, argv[1])
    return ok1(st, z3.Not(option_eq(a, b)))


def s_option_u8_eq(ex, st, callee, args, argv, f):
    a, b = ex.deref_val(st, argv[0]), ex.deref_val(st, argv[1])
    return ok1(st, option_eq(a, b))


def option_eq(a, b):
    if not (isinstance(a, EnumV) and isinstance(b, EnumV) and a.ety == "Option" and b.ety == "Option"):
        raise Unsupported("Option comparison on %r, %r" % (a, b))
    da, db = disc_expr(a), disc_expr(b)
    pa = a.payloads.get(1, [None])[0]
    pb = b.payloads.get(1, [None])[0]
    if pa is None or pb is None:
        return da == db if (pa is None and pb is None) else z3.And(da == db, da == 0)
    return z3.And(da == db, z3.Or(da == 0, pa == pb))


def s_str_into_error(ex, st, callee, args, argv, f):
    return ok1(st, EnumV("Error", 0, {0: [argv[0]]}))


def s_vec_default(ex, st, callee, args, argv, f):
    return ok1(st, SeqV(z3.Empty(BYTES)))


def s_deref_vec(ex, st, callee, args, argv, f):
    v = ex.deref_val(st, argv[0])
    if isinstance(v, SeqV):
        return ok1(st, v)
    raise Unsupported("Deref::deref on %r" % (v,))


def s_vec_extend(ex, st, callee, args, argv, f):
    r, sl = argv[0], ex.deref_val(st, argv[1])
    if not isinstance(r, RefV) or not isinstance(sl, SeqV):
        raise Unsupported("extend_from_slice(%r, %r)" % (r, sl))
    cur = ex.deref_val(st, r)
    if not isinstance(cur, SeqV):
        raise Unsupported("extend_from_slice on %r" % (cur,))
    ex.write_ref(st, r, [], SeqV(z3.Concat(cur.e, sl.e)))
    return ok1(st, UNIT)


HEAPLESS_CAP = 384
CAP_OVERRIDE = [None]     # witness search only: a scaled-down capacity (see relation.build(cap=..))


def s_heapless_extend(ex, st, callee, args, argv, f):
    """heapless 0.7 Vec::extend_from_slice: Err(()) and no change when len + other.len() > capacity, else append"""
    m = re.search(r"Vec::<u8, (\d+)>", callee)
    cap = int(m.group(1)) if m else HEAPLESS_CAP
    if CAP_OVERRIDE[0] is not None and cap == HEAPLESS_CAP:
        cap = CAP_OVERRIDE[0]
    r, sl = argv[0], ex.deref_val(st, argv[1])
    cur = ex.deref_val(st, r)
    if not (isinstance(r, RefV) and isinstance(sl, SeqV) and isinstance(cur, SeqV)):
        raise Unsupported("heapless extend_from_slice(%r, %r)" % (r, sl))
    full = z3.Length(cur.e) + z3.Length(sl.e) > cap
    outs = []
    if ex.feasible(st, full):
        s2 = st.clone()
        s2.pc.append(full)
        outs.append(Outcome(s2, ret=EnumV("Result", 1, {1: [UNIT]})))
    if ex.feasible(st, z3.Not(full)):
        s3 = st.clone()
        s3.pc.append(z3.Not(full))
        ex.write_ref(s3, r, [], SeqV(z3.Concat(cur.e, sl.e)))
        outs.append(Outcome(s3, ret=EnumV("Result", 0, {0: [UNIT]})))
    return outs


def s_map_err(ex, st, callee, args, argv, f):
    v, clo = argv[0], argv[1]
    if not (isinstance(v, EnumV) and v.ety == "Result"):
        raise Unsupported("map_err on %r" % (v,))
    outs = []
    if isinstance(v.disc, int):
        cases = [(v.disc == 0, None), (v.disc == 1, None)]
    else:
        cases = [(True, v.disc == 0), (True, v.disc == 1)]
    take_ok, c_ok = cases[0]
    take_err, c_err = cases[1]
    if take_ok and (c_ok is None or ex.feasible(st, c_ok)):
        s2 = st.clone()
        if c_ok is not None:
            s2.pc.append(c_ok)
        outs.append(Outcome(s2, ret=EnumV("Result", 0, {0: list(v.payloads.get(0, [UNIT]))})))
    if take_err and (c_err is None or ex.feasible(st, c_err)):
        s3 = st.clone()
        if c_err is not None:
            s3.pc.append(c_err)
        for o in ex.call_closure(s3, clo, [v.payloads.get(1, [UNIT])[0]]):
            if o.panic is not None:
                outs.append(o)
            else:
                outs.append(Outcome(o.st, ret=EnumV("Result", 1, {1: [o.ret]})))
    return outs


def s_error_from_str(ex, st, callee, args, argv, f):
    return ok1(st, EnumV("Error", 0, {0: [argv[0]]}))


def s_mem_swap(ex, st, callee, args, argv, f):
    a, b = argv
    if not (isinstance(a, RefV) and isinstance(b, RefV)):
        raise Unsupported("mem::swap(%r, %r)" % (a, b))
    va, vb = ex.deref_val(st, a), ex.deref_val(st, b)
    ex.write_ref(st, a, [], vb)
    ex.write_ref(st, b, [], va)
    return ok1(st, UNIT)


def s_mem_take(ex, st, callee, args, argv, f):
    a = argv[0]
    if not isinstance(a, RefV):
        raise Unsupported("mem::take(%r)" % (a,))
    va = ex.deref_val(st, a)
    if isinstance(va, SeqV):
        ex.write_ref(st, a, [], SeqV(z3.Empty(BYTES)))
    elif isinstance(va, EnumV) and va.ety == "Option":
        ex.write_ref(st, a, [], EnumV("Option", 0, {}))
    elif z3.is_bv(va):
        ex.write_ref(st, a, [], z3.BitVecVal(0, va.size()))
    else:
        raise Unsupported("mem::take of %r" % (va,))
    return ok1(st, va)


def s_mem_replace(ex, st, callee, args, argv, f):
    a, new = argv
    if not isinstance(a, RefV):
        raise Unsupported("mem::replace(%r)" % (a,))
    va = ex.deref_val(st, a)
    ex.write_ref(st, a, [], new)
    return ok1(st, va)


def s_vec_clear(ex, st, callee, args, argv, f):
    a = argv[0]
    ex.write_ref(st, a, [], SeqV(z3.Empty(BYTES)))
    return ok1(st, UNIT)


def s_vec_len(ex, st, callee, args, argv, f):
    v = ex.deref_val(st, argv[0])
    if not isinstance(v, SeqV):
        raise Unsupported("len of %r" % (v,))
    return ok1(st, z3.Int2BV(z3.Length(v.e), 64))


def s_vec_is_empty(ex, st, callee, args, argv, f):
    v = ex.deref_val(st, argv[0])
    if not isinstance(v, SeqV):
        raise Unsupported("is_empty of %r" % (v,))
    return ok1(st, z3.Length(v.e) == 0)


def s_option_take(ex, st, callee, args, argv, f):
    a = argv[0]
    va = ex.deref_val(st, a)
    ex.write_ref(st, a, [], EnumV("Option", 0, {}))
    return ok1(st, va)


def s_option_is_some(ex, st, callee, args, argv, f):
    v = ex.deref_val(st, argv[0])
    return ok1(st, disc_expr(v) == 1)


def s_option_is_none(ex, st, callee, args, argv, f):
    v = ex.deref_val(st, argv[0])
    return ok1(st, disc_expr(v) == 0)


def int_method(name):
    def fn(ex, st, callee, args, argv, f):
        a, b = argv[0], argv[1]
        m = re.search(r"impl ([iu](?:8|16|32|64|size))>", callee)
        signed = bool(m) and m.group(1).startswith("i")
        if name == "wrapping_sub":
            return ok1(st, a - b)
        if name == "wrapping_add":
            return ok1(st, a + b)
        if name == "saturating_sub" and not signed:
            return ok1(st, z3.If(z3.ULT(a, b), z3.BitVecVal(0, a.size()), a - b))
        if name == "saturating_add" and not signed:
            s = a + b
            return ok1(st, z3.If(z3.ULT(s, a), z3.BitVecVal(-1, a.size()), s))
        if name == "checked_sub" and not signed:
            d = z3.If(z3.ULT(a, b), z3.BitVecVal(0, 64), z3.BitVecVal(1, 64))
            return ok1(st, EnumV("Option", z3.simplify(d), {1: [a - b]}))
        if name == "checked_add" and not signed:
            s = a + b
            d = z3.If(z3.ULT(s, a), z3.BitVecVal(0, 64), z3.BitVecVal(1, 64))
            return ok1(st, EnumV("Option", z3.simplify(d), {1: [s]}))
        if name == "abs_diff" and not signed:
            return ok1(st, z3.If(z3.ULT(a, b), b - a, a - b))
        raise Unsupported("integer method %s (%s)" % (name, callee))
    return fn


def s_partial_eq_int(ex, st, callee, args, argv, f):
    a, b = ex.deref_val(st, argv[0]), ex.deref_val(st, argv[1])
    if z3.is_bv(a) and z3.is_bv(b):
        return ok1(st, (a != b) if callee.rstrip().endswith("::ne") else (a == b))
    if isinstance(a, EnumV) and a.ety == "Option":
        e = option_eq(a, b)
        return ok1(st, z3.Not(e) if callee.rstrip().endswith("::ne") else e)
    raise Unsupported("PartialEq on %r" % (a,))


def s_partial_ord(ex, st, callee, args, argv, f):
    a, b = ex.deref_val(st, argv[0]), ex.deref_val(st, argv[1])
    if not (z3.is_bv(a) and z3.is_bv(b)):
        raise Unsupported("PartialOrd on %r, %r" % (a, b))
    m = re.search(r"<&*([iu](?:8|16|32|64|size)) as PartialOrd>::(le|lt|ge|gt)$", callee)
    signed, op = m.group(1).startswith("i"), m.group(2)
    if op == "le":
        return ok1(st, a <= b if signed else z3.ULE(a, b))
    if op == "lt":
        return ok1(st, a < b if signed else z3.ULT(a, b))
    if op == "ge":
        return ok1(st, a >= b if signed else z3.UGE(a, b))
    return ok1(st, a > b if signed else z3.UGT(a, b))


def _int_ty(name):
    signed = name.startswith("i")
    w = 64 if name.endswith("size") else int(name[1:])
    return signed, w


def s_int_from(ex, st, callee, args, argv, f):
    """<T as From<S>>::from / <S as Into<T>>::into on primitive integers (lossless widening), <char as From<u8>>"""
    m = re.match(r"^<(char|bool|[iu](?:8|16|32|64|128|size)) as (?:std::convert::)?(From|Into)<([iu](?:8|16|32|64|128|size)|char|bool)>>::(?:from|into)$", callee)
    a, kind, b = m.group(1), m.group(2), m.group(3)
    dst, src = (a, b) if kind == "From" else (b, a)
    v = ex.deref_val(st, argv[0]) if isinstance(argv[0], RefV) else argv[0]
    if src == "bool":
        if z3.is_bool(v):
            w = _int_ty(dst)[1]
            return ok1(st, z3.If(v, z3.BitVecVal(1, w), z3.BitVecVal(0, w)))
        raise Unsupported("From<bool> on %r" % (v,))
    if not z3.is_bv(v):
        raise Unsupported("integer From on %r" % (v,))
    dw = 32 if dst == "char" else _int_ty(dst)[1]
    ssigned = False if src == "char" else _int_ty(src)[0]
    if dw < v.size():
        raise Unsupported("narrowing From: %s" % callee)
    if dw == v.size():
        return ok1(st, v)
    return ok1(st, z3.SignExt(dw - v.size(), v) if ssigned else z3.ZeroExt(dw - v.size(), v))


def s_int_try_from(ex, st, callee, args, argv, f):
    """<T as TryFrom<S>>::try_from / <S as TryInto<T>>::try_into on primitive integers"""
    m = re.match(r"^<([iu](?:8|16|32|64|size)) as (?:std::convert::)?(TryFrom|TryInto)<([iu](?:8|16|32|64|size))>>::(?:try_from|try_into)$", callee)
    a, kind, b = m.group(1), m.group(2), m.group(3)
    dst, src = (a, b) if kind == "TryFrom" else (b, a)
    v = argv[0]
    if not z3.is_bv(v):
        raise Unsupported("integer TryFrom on %r" % (v,))
    (ds, dw), (ss, sw) = _int_ty(dst), _int_ty(src)
    if sw != v.size():
        raise Unsupported("TryFrom width mismatch: %s" % callee)
    # value interpreted in the wider of the two, mathematically
    W = max(dw, sw) + 1
    wide = z3.SignExt(W - sw, v) if ss else z3.ZeroExt(W - sw, v)
    lo = -(1 << (dw - 1)) if ds else 0
    hi = (1 << (dw - 1)) - 1 if ds else (1 << dw) - 1
    fits = z3.And(wide >= z3.BitVecVal(lo, W), wide <= z3.BitVecVal(hi, W))
    out = z3.Extract(dw - 1, 0, wide) if dw <= W else None
    d = z3.simplify(z3.If(fits, z3.BitVecVal(0, 64), z3.BitVecVal(1, 64)))
    return ok1(st, EnumV("Result", d, {0: [out], 1: [Opaque("TryFromIntError")]}))


def _split_disc(ex, st, v, n=2):
    """fork on the discriminant of an enum value: [(state, k)]"""
    if isinstance(v.disc, int):
        return [(st, v.disc)]
    outs = []
    for k in range(n):
        c = v.disc == k
        if ex.feasible(st, c):
            s2 = st.clone()
            s2.pc.append(c)
            outs.append((s2, k))
    return outs


def _closure_results(ex, st, clo, cargs, wrap):
    outs = []
    for o in ex.call_closure(st, clo, cargs):
        if o.panic is not None:
            outs.append(o)
        else:
            outs.append(Outcome(o.st, ret=wrap(o.ret)))
    return outs


def s_option_map(ex, st, callee, args, argv, f):
    v, clo = argv[0], argv[1]
    if not (isinstance(v, EnumV) and v.ety == "Option"):
        raise Unsupported("Option::map on %r" % (v,))
    outs = []
    for s2, k in _split_disc(ex, st, v):
        if k == 0:
            outs.append(Outcome(s2, ret=EnumV("Option", 0, {})))
        else:
            outs += _closure_results(ex, s2, clo, [v.payloads[1][0]], lambda r: EnumV("Option", 1, {1: [r]}))
    return outs


def s_option_and_then(ex, st, callee, args, argv, f):
    v, clo = argv[0], argv[1]
    if not (isinstance(v, EnumV) and v.ety == "Option"):
        raise Unsupported("Option::and_then on %r" % (v,))
    outs = []
    for s2, k in _split_disc(ex, st, v):
        if k == 0:
            outs.append(Outcome(s2, ret=EnumV("Option", 0, {})))
        else:
            outs += _closure_results(ex, s2, clo, [v.payloads[1][0]], lambda r: r)
    return outs


def s_option_filter(ex, st, callee, args, argv, f):
    v, clo = argv[0], argv[1]
    if not (isinstance(v, EnumV) and v.ety == "Option"):
        raise Unsupported("Option::filter on %r" % (v,))
    outs = []
    for s2, k in _split_disc(ex, st, v):
        if k == 0:
            outs.append(Outcome(s2, ret=EnumV("Option", 0, {})))
            continue
        x = v.payloads[1][0]
        # &T argument: a reference to a scalar is represented by the value itself
        for o in ex.call_closure(s2, clo, [x]):
            if o.panic is not None:
                outs.append(o)
                continue
            keep = o.ret
            if z3.is_bv(keep):
                keep = keep != 0
            d = z3.simplify(z3.If(keep, z3.BitVecVal(1, 64), z3.BitVecVal(0, 64)))
            outs.append(Outcome(o.st, ret=EnumV("Option", d, {1: [x]})))
    return outs


def s_option_ok_or(ex, st, callee, args, argv, f):
    v, e = argv[0], argv[1]
    if not (isinstance(v, EnumV) and v.ety == "Option"):
        raise Unsupported("Option::ok_or on %r" % (v,))
    d = v.disc
    nd = (1 - d) if isinstance(d, int) else z3.simplify(1 - d)
    return ok1(st, EnumV("Result", nd, {0: list(v.payloads.get(1, [UNIT])), 1: [e]}))


def s_option_ok_or_else(ex, st, callee, args, argv, f):
    v, clo = argv[0], argv[1]
    if not (isinstance(v, EnumV) and v.ety == "Option"):
        raise Unsupported("Option::ok_or_else on %r" % (v,))
    outs = []
    for s2, k in _split_disc(ex, st, v):
        if k == 1:
            outs.append(Outcome(s2, ret=EnumV("Result", 0, {0: [v.payloads[1][0]]})))
        else:
            outs += _closure_results(ex, s2, clo, [], lambda r: EnumV("Result", 1, {1: [r]}))
    return outs


def s_option_unwrap_or(ex, st, callee, args, argv, f):
    v, dflt = argv[0], argv[1]
    if not (isinstance(v, EnumV) and v.ety == "Option"):
        raise Unsupported("Option::unwrap_or on %r" % (v,))
    if isinstance(v.disc, int):
        return ok1(st, v.payloads[1][0] if v.disc == 1 else dflt)
    x = v.payloads.get(1, [None])[0]
    if z3.is_expr(x) and z3.is_expr(dflt):
        return ok1(st, z3.If(v.disc == 1, x, dflt))
    outs = []
    for s2, k in _split_disc(ex, st, v):
        outs.append(Outcome(s2, ret=x if k == 1 else dflt))
    return outs


def s_option_unwrap_or_default(ex, st, callee, args, argv, f):
    m = re.match(r"^Option::<([iu](?:8|16|32|64|size)|bool)>::unwrap_or_default$", callee)
    if not m:
        raise Unsupported("unwrap_or_default for %s" % callee)
    dflt = z3.BoolVal(False) if m.group(1) == "bool" else z3.BitVecVal(0, _int_ty(m.group(1))[1])
    return s_option_unwrap_or(ex, st, callee, args, [argv[0], dflt], f)


def s_option_unwrap_or_else(ex, st, callee, args, argv, f):
    v, clo = argv[0], argv[1]
    if not (isinstance(v, EnumV) and v.ety == "Option"):
        raise Unsupported("Option::unwrap_or_else on %r" % (v,))
    outs = []
    for s2, k in _split_disc(ex, st, v):
        if k == 1:
            outs.append(Outcome(s2, ret=v.payloads[1][0]))
        else:
            outs += _closure_results(ex, s2, clo, [], lambda r: r)
    return outs


def s_option_map_or(ex, st, callee, args, argv, f):
    v, dflt, clo = argv[0], argv[1], argv[2]
    if not (isinstance(v, EnumV) and v.ety == "Option"):
        raise Unsupported("Option::map_or on %r" % (v,))
    outs = []
    for s2, k in _split_disc(ex, st, v):
        if k == 0:
            outs.append(Outcome(s2, ret=dflt))
        else:
            outs += _closure_results(ex, s2, clo, [v.payloads[1][0]], lambda r: r)
    return outs


def s_option_is_some_and(ex, st, callee, args, argv, f):
    v, clo = argv[0], argv[1]
    if not (isinstance(v, EnumV) and v.ety == "Option"):
        raise Unsupported("Option::is_some_and on %r" % (v,))
    outs = []
    for s2, k in _split_disc(ex, st, v):
        if k == 0:
            outs.append(Outcome(s2, ret=z3.BoolVal(False)))
        else:
            outs += _closure_results(ex, s2, clo, [v.payloads[1][0]], lambda r: r)
    return outs


def s_option_copied(ex, st, callee, args, argv, f):
    v = argv[0]
    if not (isinstance(v, EnumV) and v.ety == "Option"):
        raise Unsupported("Option::copied on %r" % (v,))
    pl = {k: [ex.deref_val(st, x) for x in xs] for k, xs in v.payloads.items()}
    return ok1(st, EnumV("Option", v.disc, pl))


def s_result_map(ex, st, callee, args, argv, f):
    v, clo = argv[0], argv[1]
    if not (isinstance(v, EnumV) and v.ety == "Result"):
        raise Unsupported("Result::map on %r" % (v,))
    outs = []
    for s2, k in _split_disc(ex, st, v):
        if k == 1:
            outs.append(Outcome(s2, ret=EnumV("Result", 1, {1: list(v.payloads.get(1, [UNIT]))})))
        else:
            outs += _closure_results(ex, s2, clo, [v.payloads[0][0]], lambda r: EnumV("Result", 0, {0: [r]}))
    return outs


def s_result_ok(ex, st, callee, args, argv, f):
    v = argv[0]
    if not (isinstance(v, EnumV) and v.ety == "Result"):
        raise Unsupported("Result::ok on %r" % (v,))
    d = v.disc
    nd = (1 - d) if isinstance(d, int) else z3.simplify(1 - d)
    return ok1(st, EnumV("Option", nd, {1: list(v.payloads.get(0, [UNIT]))}))


def s_result_is(which):
    def fn(ex, st, callee, args, argv, f):
        v = ex.deref_val(st, argv[0])
        return ok1(st, disc_expr(v) == which)
    return fn


def s_bool_then(ex, st, callee, args, argv, f):
    c, clo = argv[0], argv[1]
    if z3.is_bv(c):
        c = c != 0
    outs = []
    for cond, k in ((c, 1), (z3.Not(c), 0)):
        if not ex.feasible(st, cond):
            continue
        s2 = st.clone()
        s2.pc.append(cond)
        if k == 0:
            outs.append(Outcome(s2, ret=EnumV("Option", 0, {})))
        else:
            outs += _closure_results(ex, s2, clo, [], lambda r: EnumV("Option", 1, {1: [r]}))
    return outs


def s_bool_then_some(ex, st, callee, args, argv, f):
    c, x = argv[0], argv[1]
    if z3.is_bv(c):
        c = c != 0
    d = z3.simplify(z3.If(c, z3.BitVecVal(1, 64), z3.BitVecVal(0, 64)))
    return ok1(st, EnumV("Option", d, {1: [x]}))


def s_checked_mul(ex, st, callee, args, argv, f):
    a, b = argv[0], argv[1]
    w = a.size()
    wide = z3.ZeroExt(w, a) * z3.ZeroExt(w, b)
    ovf = z3.Extract(2 * w - 1, w, wide) != 0
    d = z3.simplify(z3.If(ovf, z3.BitVecVal(0, 64), z3.BitVecVal(1, 64)))
    return ok1(st, EnumV("Option", d, {1: [z3.Extract(w - 1, 0, wide)]}))


def s_slice_into_iter(ex, st, callee, args, argv, f):
    v = argv[0]
    if isinstance(v, Opaque) and v.tag == "iter":
        return ok1(st, v)          # <Iter as IntoIterator>::into_iter
    sl = ex.deref_val(st, v)
    if isinstance(sl, SeqV) or hasattr(sl, "line"):
        return ok1(st, IterV(sl))
    raise Unsupported("into_iter on %r" % (sl,))


def s_slice_iter_next(ex, st, callee, args, argv, f):
    """Iter<u8>::next outside an accelerated loop: position-indexed slices only (layer T); no fork here, the Option's
    discriminant is symbolic and the caller's switchInt forks"""
    r = argv[0]
    it = ex.deref_val(st, r)
    if isinstance(it, Opaque) and it.tag == "iter-exhausted":
        return ok1(st, EnumV("Option", 0, {}))
    sl = ex.deref_val(st, it.e) if isinstance(it, Opaque) and it.tag == "iter" else None
    if sl is None or not hasattr(sl, "line") or not isinstance(r, RefV):
        raise Unsupported("Iter::next on %r (a loop over this value is not a straight-line fold)" % (it,))
    nonempty = z3.ULT(sl.s, sl.e)
    item = sl.line.at(sl.s)
    ex.write_ref(st, r, [], IterV(type(sl)(sl.line, z3.simplify(z3.If(nonempty, sl.s + 1, sl.s)), sl.e)))
    d = z3.simplify(z3.If(nonempty, z3.BitVecVal(1, 64), z3.BitVecVal(0, 64)))
    return ok1(st, EnumV("Option", d, {1: [item]}))


def s_panic_call(ex, st, callee, args, argv, f):
    msg = "explicit panic"
    if argv and isinstance(argv[0], Opaque) and argv[0].tag.startswith("str:"):
        msg = argv[0].tag[4:].strip('"')
    return [Outcome(st, panic=Panic(msg, f.name if f is not None else "?"))]


def s_ord_cmp(ex, st, callee, args, argv, f):
    a, b = ex.deref_val(st, argv[0]), ex.deref_val(st, argv[1])
    if not (z3.is_bv(a) and z3.is_bv(b)):
        raise Unsupported("Ord::cmp on %r, %r" % (a, b))
    m = re.search(r"<&*([iu](?:8|16|32|64|size)) as (?:Partial)?Ord>::(?:partial_)?cmp$", callee)
    signed = m.group(1).startswith("i")
    lt = (a < b) if signed else z3.ULT(a, b)
    d = z3.If(lt, z3.BitVecVal(0, 64), z3.If(a == b, z3.BitVecVal(1, 64), z3.BitVecVal(2, 64)))
    o = EnumV("Ordering", d, {})
    if "partial_cmp" in callee:
        return ok1(st, EnumV("Option", 1, {1: [o]}))
    return ok1(st, o)


def s_int_minmax(ex, st, callee, args, argv, f):
    m = re.search(r"(min|max)::<([iu](?:8|16|32|64|size))>$", callee) or re.search(r"^<([iu](?:8|16|32|64|size)) as Ord>::(min|max)$", callee)
    g = m.groups()
    op, ty = (g[0], g[1]) if g[0] in ("min", "max") else (g[1], g[0])
    a, b = argv[0], argv[1]
    if not (z3.is_bv(a) and z3.is_bv(b)):
        raise Unsupported("%s on %r, %r" % (op, a, b))
    lt = (b < a) if ty.startswith("i") else z3.ULT(b, a)
    if op == "min":
        return ok1(st, z3.If(lt, b, a))
    return ok1(st, z3.If(lt, a, b))


def s_vec_reserve(ex, st, callee, args, argv, f):
    """Vec::reserve / reserve_exact: capacity is not modelled; std's Vec panics ("capacity overflow") when len + additional exceeds
    isize::MAX, heapless has no reserve"""
    v = ex.deref_val(st, argv[0])
    add = argv[1]
    if not (isinstance(v, SeqV) and z3.is_bv(add)):
        raise Unsupported("reserve(%r, %r)" % (v, add))
    total = z3.Int2BV(z3.Length(v.e), 64) + add
    too = z3.Or(z3.ULT(total, add), z3.UGT(total, z3.BitVecVal((1 << 63) - 1, 64)))
    outs = []
    if ex.feasible(st, too):
        s2 = st.clone()
        s2.pc.append(too)
        outs.append(Outcome(s2, panic=Panic("capacity overflow", callee)))
    s3 = st.clone()
    s3.pc.append(z3.Not(too))
    outs.append(Outcome(s3, ret=UNIT))
    return outs


def s_identity(ex, st, callee, args, argv, f):
    return ok1(st, argv[0])


COMMON = [
    (r"^(?:core::panicking::|std::rt::)?(?:panic|panic_fmt|panic_display::<.*>|panic_explicit|unreachable_display::<.*>|begin_panic::<.*>)$", s_panic_call),
    (r"as Try>::branch$", s_try_branch),
    (r"as FromResidual<.*>>::from_residual$", s_from_residual),
    (r"^<Option<u8> as PartialEq>::ne$", s_option_u8_ne),
    (r"^<Option<u8> as PartialEq>::eq$", s_option_u8_eq),
    (r"^<&u8 as PartialEq>::(eq|ne)$|^<u8 as PartialEq>::(eq|ne)$|^<&Option<u8> as PartialEq>::(eq|ne)$", s_partial_eq_int),
    (r"^<&(?:'static )?str as (?:std::convert::)?Into<err::Error>>::into$", s_str_into_error),
    (r"^<err::Error as (?:std::convert::)?From<&(?:'static )?str>>::from$", s_error_from_str),
    (r"^<(?:std::vec::)?Vec<u8> as Default>::default$|^Vec::<u8>::new$", s_vec_default),
    (r"^<(?:heapless::)?Vec<u8, \d+> as Default>::default$|^(?:heapless::)?Vec::<u8, \d+>::new$", s_vec_default),
    (r"^<(?:std::vec::)?Vec<u8> as Deref>::deref$|^<(?:heapless::)?Vec<u8, \d+> as Deref>::deref$", s_deref_vec),
    (r"^Vec::<u8>::as_slice$|^(?:heapless::)?Vec::<u8, \d+>::as_slice$", s_deref_vec),
    (r"^Vec::<u8>::extend_from_slice$", s_vec_extend),
    (r"^(?:heapless::)?Vec::<u8, \d+>::extend_from_slice$", s_heapless_extend),
    (r"^(?:std::result::)?Result::<.*>::map_err::<", s_map_err),
    (r"^std::mem::swap::<", s_mem_swap),
    (r"^std::mem::take::<", s_mem_take),
    (r"^std::mem::replace::<", s_mem_replace),
    (r"^Vec::<u8>::clear$|^(?:heapless::)?Vec::<u8, \d+>::clear$", s_vec_clear),
    (r"^Vec::<u8>::(?:reserve|reserve_exact)$", s_vec_reserve),
    (r"^Vec::<u8>::len$|^(?:heapless::)?Vec::<u8, \d+>::len$", s_vec_len),
    (r"^Vec::<u8>::is_empty$|^(?:heapless::)?Vec::<u8, \d+>::is_empty$", s_vec_is_empty),
    (r"^Option::<u8>::take$", s_option_take),
    (r"^Option::<.*>::is_some$", s_option_is_some),
    (r"^Option::<.*>::is_none$", s_option_is_none),
    (r"^core::num::<impl u(?:8|16|32|64|size)>::wrapping_sub$", int_method("wrapping_sub")),
    (r"^core::num::<impl u(?:8|16|32|64|size)>::wrapping_add$", int_method("wrapping_add")),
    (r"^core::num::<impl u(?:8|16|32|64|size)>::saturating_sub$", int_method("saturating_sub")),
    (r"^core::num::<impl u(?:8|16|32|64|size)>::saturating_add$", int_method("saturating_add")),
    (r"^core::num::<impl u(?:8|16|32|64|size)>::checked_sub$", int_method("checked_sub")),
    (r"^core::num::<impl u(?:8|16|32|64|size)>::checked_add$", int_method("checked_add")),
    (r"^core::num::<impl u(?:8|16|32|64|size)>::abs_diff$", int_method("abs_diff")),
    (r"^<&*[iu](?:8|16|32|64|size) as PartialOrd>::(?:le|lt|ge|gt)$", s_partial_ord),
    (r"^<&*[iu](?:8|16|32|64|size) as Ord>::cmp$|^<&*[iu](?:8|16|32|64|size) as PartialOrd>::partial_cmp$", s_ord_cmp),
    (r"^<u8 as Clone>::clone$|^<Option<u8> as Clone>::clone$", lambda ex, st, c, a, v, f: ok1(st, ex.deref_val(st, v[0]))),
    (r"^<(?:char|bool|[iu](?:8|16|32|64|128|size)) as (?:std::convert::)?(?:From|Into)<(?:[iu](?:8|16|32|64|128|size)|char|bool)>>::(?:from|into)$", s_int_from),
    (r"^<[iu](?:8|16|32|64|size) as (?:std::convert::)?(?:TryFrom|TryInto)<[iu](?:8|16|32|64|size)>>::(?:try_from|try_into)$", s_int_try_from),
    (r"^Option::<.*>::map::<", s_option_map),
    (r"^Option::<.*>::and_then::<", s_option_and_then),
    (r"^Option::<.*>::filter::<", s_option_filter),
    (r"^Option::<.*>::ok_or::<", s_option_ok_or),
    (r"^Option::<.*>::ok_or_else::<", s_option_ok_or_else),
    (r"^Option::<.*>::unwrap_or$", s_option_unwrap_or),
    (r"^Option::<.*>::unwrap_or_default$", s_option_unwrap_or_default),
    (r"^Option::<.*>::unwrap_or_else::<", s_option_unwrap_or_else),
    (r"^Option::<.*>::map_or::<", s_option_map_or),
    (r"^Option::<.*>::is_some_and::<", s_option_is_some_and),
    (r"^Option::<&.*>::(?:copied|cloned)$", s_option_copied),
    (r"^(?:std::result::)?Result::<.*>::map::<", s_result_map),
    (r"^(?:std::result::)?Result::<.*>::ok$", s_result_ok),
    (r"^(?:std::result::)?Result::<.*>::is_ok$", s_result_is(0)),
    (r"^(?:std::result::)?Result::<.*>::is_err$", s_result_is(1)),
    (r"^(?:core::)?bool::<impl bool>::then::<|^core::bool::<impl bool>::then::<", s_bool_then),
    (r"^(?:core::)?bool::<impl bool>::then_some::<|^core::bool::<impl bool>::then_some::<", s_bool_then_some),
    (r"^core::num::<impl u(?:8|16|32|64|size)>::checked_mul$", s_checked_mul),
    (r"^(?:(?:std|core)::cmp::)?(?:min|max)::<[iu](?:8|16|32|64|size)>$|^<[iu](?:8|16|32|64|size) as Ord>::(?:min|max)$", s_int_minmax),
    (r"^<&\[u8\] as IntoIterator>::into_iter$|^<(?:std::|core::)?slice::Iter<'_, u8> as IntoIterator>::into_iter$|^<&(?:std::vec::)?Vec<u8(?:, \d+)?> as IntoIterator>::into_iter$", s_slice_into_iter),
    (r"^<(?:std::|core::)?slice::Iter<'_, u8> as Iterator>::next$|^<(?:std::|core::)?str::Bytes<'_> as Iterator>::next$", s_slice_iter_next),
    (r"^<(?:std::|core::)?str::Bytes<'_> as IntoIterator>::into_iter$", s_slice_into_iter),
]


def compile_table(entries):
    return [(re.compile(rx), fn) for rx, fn in entries]
