"""Layer S: the transition relation of `AisParser::parse`, derived from the MIR of /repo's current tree.

`build(cfg)` dumps the MIR for one build configuration, executes `AisParser::parse` symbolically from an arbitrary
parser state on an arbitrary layer-T outcome, and returns a Relation whose `step()` instantiates the relation
(by substitution) for use in bounded / inductive queries."""
import os, re, subprocess, time
import z3

from . import parse as P
from .exec import (Executor, State, Agg, EnumV, RefV, SeqV, Opaque, UNIT, Outcome, BYTES, Panic)
from .parse import Unsupported
from .summaries import COMMON, compile_table, ok1

B8, B64 = z3.BitVecSort(8), z3.BitVecSort(64)
U_BYTES = z3.DeclareSort("Unarmored")
U_MSG = z3.DeclareSort("AisMessage")
F_UNARMOR_OK = z3.Function("unarmor_ok", BYTES, B64, z3.BoolSort())
F_UNARMOR = z3.Function("unarmor_out", BYTES, B64, U_BYTES)
F_MSG_OK = z3.Function("msgparse_ok", U_BYTES, z3.BoolSort())
F_MSG = z3.Function("msgparse_out", U_BYTES, U_MSG)

K_COMPLETE, K_INCOMPLETE, K_ERR_NMEA, K_ERR_CHECKSUM, K_PANIC = 0, 1, 2, 3, 4
KIND_NAMES = {0: "Complete", 1: "Incomplete", 2: "Err(Nmea)", 3: "Err(Checksum)", 4: "PANIC"}

CFG_FLAGS = {"std": [], "alloc": ["--no-default-features", "--features", "alloc"], "none": ["--no-default-features"]}


def dump_mir(repo, cfg, scratch, target="lib"):
    """nightly MIR dump of the crate (fresh target dir -> always regenerated from the working tree)"""
    td = os.path.join(scratch, "mir-%s-%s" % (cfg, target))
    out = os.path.join(scratch, "%s-%s.mir" % (cfg, target))
    cmd = ["cargo", "+nightly", "rustc", "--offline"] + (["--lib"] if target == "lib" else ["--bin", target]) + CFG_FLAGS[cfg] + \
          ["--target-dir", td, "--", "-Zunpretty=mir", "-C", "debug-assertions=off", "-C", "overflow-checks=on"]
    env = dict(os.environ)
    env["CARGO_NET_OFFLINE"] = "true"
    t0 = time.time()
    p = subprocess.run(cmd, cwd=repo, env=env, stdout=subprocess.PIPE, stderr=subprocess.PIPE, text=True)
    if p.returncode != 0 or not p.stdout.strip():
        raise Unsupported("MIR dump failed for cfg %s: %s" % (cfg, p.stderr[-1500:]))
    with open(out, "w") as f:
        f.write(p.stdout)
    return out, time.time() - t0


class Vars:
    """the symbolic inputs of one step and the symbolic pre-state"""

    def __init__(self, sfx=""):
        s = sfx
        # pre-state
        self.st_id_d = z3.BitVec("st_id_d" + s, 64)
        self.st_id_v = z3.BitVec("st_id_v" + s, 8)
        self.st_fn = z3.BitVec("st_fn" + s, 8)
        self.st_data = z3.Const("st_data" + s, BYTES)
        # layer T outcome
        self.t_ok = z3.Bool("t_ok" + s)
        self.nf = z3.BitVec("nf" + s, 8)
        self.fn = z3.BitVec("fn" + s, 8)
        self.id_d = z3.BitVec("id_d" + s, 64)
        self.id_v = z3.BitVec("id_v" + s, 8)
        self.data = z3.Const("data" + s, BYTES)
        self.fill = z3.BitVec("fill" + s, 8)
        self.mt = z3.BitVec("mt" + s, 8)
        self.chk = z3.BitVec("chk" + s, 8)       # transmitted checksum
        self.xor = z3.BitVec("xor" + s, 8)       # XOR fold of the raw sentence bytes
        self.decode = z3.Bool("decode" + s)

    def all(self):
        return [self.st_id_d, self.st_id_v, self.st_fn, self.st_data, self.t_ok, self.nf, self.fn, self.id_d, self.id_v, self.data,
                self.fill, self.mt, self.chk, self.xor, self.decode]

    def wellformed(self, heapless=False, cap=384):
        """what layer T guarantees about an accepted sentence (proved by the M-T queries), and Option tags being tags"""
        c = [z3.Or(self.id_d == 0, self.id_d == 1), z3.Or(self.st_id_d == 0, self.st_id_d == 1),
             z3.Length(self.data) >= 1, z3.ULT(self.fill, 6)]
        if heapless:
            c += [z3.Length(self.data) <= cap, z3.Length(self.st_data) <= cap]
        return z3.And(*c)


class Step:
    """one instantiated step: formulas over a Vars"""
    pass


class Relation:
    def __init__(self, cfg):
        self.cfg = cfg
        self.base = Vars("")
        self.paths = []      # dicts: pc, kind, post(id_d,id_v,fn,data), out fields, note
        self.stats = {}
        self.functions_encoded = []
        self.summarised = []
        self.heapless = cfg == "none"
        self.cap = 384
        self.scale = 1

    # merged (ite) view over the base variables
    def merged(self):
        def ite(field, default):
            e = default
            for p in reversed(self.paths):
                e = z3.If(p["pc"], p[field], e)
            return e
        b = self.base
        m = {
            "kind": ite("kind", z3.IntVal(-1)),
            "site": ite("site", z3.IntVal(-1)),
            "post_id_d": ite("post_id_d", b.st_id_d), "post_id_v": ite("post_id_v", b.st_id_v),
            "post_fn": ite("post_fn", b.st_fn), "post_data": ite("post_data", b.st_data),
            "o_nf": ite("o_nf", z3.BitVecVal(0, 8)), "o_fn": ite("o_fn", z3.BitVecVal(0, 8)),
            "o_id_d": ite("o_id_d", z3.BitVecVal(0, 64)), "o_id_v": ite("o_id_v", z3.BitVecVal(0, 8)),
            "o_data": ite("o_data", z3.Empty(BYTES)), "o_fill": ite("o_fill", z3.BitVecVal(0, 8)),
            "o_mt": ite("o_mt", z3.BitVecVal(0, 8)),
            "o_msg_some": ite("o_msg_some", z3.BoolVal(False)), "o_msg": ite("o_msg", z3.Const("nomsg", U_MSG)),
            "o_passthru": ite("o_passthru", z3.BoolVal(True)),
            "e_expected": ite("e_expected", z3.BitVecVal(0, 8)), "e_found": ite("e_found", z3.BitVecVal(0, 8)),
        }
        return m

    def step(self, sfx):
        """instantiate the merged relation over fresh variables with suffix sfx"""
        v = Vars(sfx)
        sub = list(zip(self.base.all(), v.all()))
        m = self.merged()
        s = Step()
        s.v = v
        for k, e in m.items():
            setattr(s, k, z3.substitute(e, *sub))
        s.wf = v.wellformed(self.heapless, self.cap)
        return s


def _bytes_of_option(opt):
    if not (isinstance(opt, EnumV) and opt.ety == "Option"):
        raise Unsupported("expected Option, got %r" % (opt,))
    d = z3.BitVecVal(opt.disc, 64) if isinstance(opt.disc, int) else opt.disc
    v = opt.payloads.get(1, [z3.BitVecVal(0, 8)])[0]
    return d, v


def build(repo, cfg, scratch, mir_path=None, cap=None):
    """cap: witness search only - the heapless capacity 384 replaced by cap (384 = cap * scale); models found on the scaled
    relation are scaled back (payload lengths * scale) before they are replayed on the real library"""
    from . import summaries as S
    S.CAP_OVERRIDE[0] = cap
    try:
        return _build(repo, cfg, scratch, mir_path, cap)
    finally:
        S.CAP_OVERRIDE[0] = None


def _build(repo, cfg, scratch, mir_path, cap):
    t0 = time.time()
    dump_s = 0.0
    if mir_path is None:
        mir_path, dump_s = dump_mir(repo, cfg, scratch)
    funcs = P.parse_mir(open(mir_path).read())
    enums, structs = P.scan_source_types(os.path.join(repo, "src"))
    rel = Relation(cfg)
    if cap is not None:
        rel.cap, rel.scale = cap, 384 // cap
    b = rel.base
    TALKER, RTYPE, CHANNEL, RAW = Opaque("talker"), Opaque("report_type"), Opaque("channel"), SeqV(z3.Const("rawslice", BYTES))
    NOMSG = EnumV("Option", 0, {})

    def s_parse_nmea(ex, st, callee, args, argv, f):
        sent = Agg([TALKER, RTYPE, b.nf, b.fn, EnumV("Option", b.id_d, {1: [b.id_v]}), CHANNEL, SeqV(b.data), b.fill, b.mt, NOMSG], "AisSentence")
        okv = Agg([Opaque("rest"), Agg([RAW, sent, b.chk])])
        outs = []
        s1 = st.clone()
        s1.pc.append(b.t_ok)
        outs.append(Outcome(s1, ret=EnumV("Result", 0, {0: [okv]})))
        s2 = st.clone()
        s2.pc.append(z3.Not(b.t_ok))
        s2.ghost["site"] = "layer-T"
        outs.append(Outcome(s2, ret=EnumV("Result", 1, {1: [Opaque("nom-error")]})))
        return outs

    def s_iter(ex, st, callee, args, argv, f):
        return ok1(st, Opaque("iter", argv[0]))

    def s_fold(ex, st, callee, args, argv, f):
        # XOR fold of the raw sentence: one symbolic byte per step at this layer (the fold itself belongs to layer T)
        return ok1(st, b.xor)

    def s_unarmor(ex, st, callee, args, argv, f):
        d = ex.deref_val(st, argv[0])
        fill = argv[1]
        if not isinstance(d, SeqV):
            raise Unsupported("unarmor argument %r" % (d,))
        okc = F_UNARMOR_OK(d.e, fill)
        s1, s2 = st.clone(), st.clone()
        s1.pc.append(okc)
        s2.pc.append(z3.Not(okc))
        s2.ghost["site"] = "unarmor"
        return [Outcome(s1, ret=EnumV("Result", 0, {0: [Opaque("unarmored", F_UNARMOR(d.e, fill))]})),
                Outcome(s2, ret=EnumV("Result", 1, {1: [EnumV("Error", 0, {0: [Opaque("unarmor-error")]})]}))]

    def s_msgparse(ex, st, callee, args, argv, f):
        d = ex.deref_val(st, argv[0])
        if not (isinstance(d, Opaque) and d.tag == "unarmored"):
            raise Unsupported("messages::parse argument %r" % (d,))
        okc = F_MSG_OK(d.e)
        s1, s2 = st.clone(), st.clone()
        s1.pc.append(okc)
        s2.pc.append(z3.Not(okc))
        s2.ghost["site"] = "messages::parse"
        return [Outcome(s1, ret=EnumV("Result", 0, {0: [Opaque("message", F_MSG(d.e))]})),
                Outcome(s2, ret=EnumV("Result", 1, {1: [EnumV("Error", 0, {0: [Opaque("message-error")]})]}))]

    def s_deref_opaque_vec(ex, st, callee, args, argv, f):
        v = ex.deref_val(st, argv[0])
        return ok1(st, v)

    table = compile_table([
        (r"^%s$" % re.escape((P.sentence_parser_fn(funcs) or P.Function("parse_nmea_sentence", "")).name.split("::")[-1]), s_parse_nmea),
        (r"^(?:core::)?slice::<impl \[u8\]>::iter$", s_iter),
        (r"as Iterator>::fold::<u8,", s_fold),
        (r"as Iterator>::(?:take|skip)$", lambda ex, st, c, a, v, f: ok1(st, Opaque("iter-adapter", (v[0], v[1])))),
        (r"^(?:messages::)?unarmor$", s_unarmor),
        (r"^messages::parse$", s_msgparse),
        (r"^<(?:std::vec::)?Vec<u8> as Deref>::deref$|^<(?:heapless::)?Vec<u8, \d+> as Deref>::deref$", s_deref_opaque_vec),
    ] + COMMON)
    ex = Executor(funcs, enums, structs, table)
    # a `for` loop that XOR-folds the raw sentence is the same symbol as the iterator fold (checked: plain XOR from 0, over RAW)
    ex.seq_xor_fold = lambda sl: b.xor if (isinstance(sl, SeqV) and sl.e.eq(RAW.e)) else None
    fparse = None
    for name, fn in funcs.items():
        if name.endswith("::parse") and fn.args and enum_last(fn.args[0][1]) == "AisParser":
            fparse = fn
    if fparse is None:
        raise Unsupported("AisParser::parse not found in the MIR dump")
    st = State()
    parser = Agg([EnumV("Option", b.st_id_d, {1: [b.st_id_v]}), b.st_fn, SeqV(b.st_data)], "AisParser")
    st.frames.append({100: parser})
    st.pc.append(b.wellformed(rel.heapless, rel.cap))
    outs = ex.run(fparse, [RefV(0, 100, []), Opaque("line"), b.decode], st)
    sites = {}
    for o in outs:
        pc = z3.And(*o.st.pc[1:]) if len(o.st.pc) > 1 else z3.BoolVal(True)
        post = o.st.frames[0][100]
        pid_d, pid_v = _bytes_of_option(post.fields[0])
        pfn = post.fields[1]
        pdata = post.fields[2]
        if not isinstance(pdata, SeqV):
            raise Unsupported("parser data after the step is %r" % (pdata,))
        rec = {"pc": z3.simplify(pc), "post_id_d": pid_d, "post_id_v": pid_v, "post_fn": pfn, "post_data": pdata.e,
               "o_nf": z3.BitVecVal(0, 8), "o_fn": z3.BitVecVal(0, 8), "o_id_d": z3.BitVecVal(0, 64), "o_id_v": z3.BitVecVal(0, 8),
               "o_data": z3.Empty(BYTES), "o_fill": z3.BitVecVal(0, 8), "o_mt": z3.BitVecVal(0, 8), "o_msg_some": z3.BoolVal(False),
               "o_msg": z3.Const("nomsg", U_MSG), "o_passthru": z3.BoolVal(True), "e_expected": z3.BitVecVal(0, 8),
               "e_found": z3.BitVecVal(0, 8), "site": z3.IntVal(-1), "note": ""}
        if o.panic is not None:
            rec["kind"] = z3.IntVal(K_PANIC)
            rec["note"] = "%s at %s" % (o.panic.msg, o.panic.where)
            rec["kind_py"] = K_PANIC
        else:
            r = o.ret
            if not (isinstance(r, EnumV) and r.ety == "Result" and isinstance(r.disc, int)):
                raise Unsupported("return value of parse is %r" % (r,))
            if r.disc == 1:
                e = r.payloads[1][0]
                if isinstance(e, EnumV) and e.ety == "Error" and e.disc == 1:
                    rec["kind"], rec["kind_py"] = z3.IntVal(K_ERR_CHECKSUM), K_ERR_CHECKSUM
                    rec["e_expected"], rec["e_found"] = e.payloads[1][0], e.payloads[1][1]
                else:
                    rec["kind"], rec["kind_py"] = z3.IntVal(K_ERR_NMEA), K_ERR_NMEA
                    tag = o.st.ghost.get("site")
                    if tag is None and isinstance(e, EnumV) and e.payloads.get(0):
                        x = e.payloads[0][0]
                        tag = x.tag if isinstance(x, Opaque) else "?"
                    tag = tag or "?"
                    rec["note"] = tag
                    rec["site"] = z3.IntVal(sites.setdefault(tag, len(sites)))
            else:
                fr = r.payloads[0][0]
                if not (isinstance(fr, EnumV) and fr.ety == "AisFragments" and isinstance(fr.disc, int)):
                    raise Unsupported("Ok payload of parse is %r" % (fr,))
                rec["kind_py"] = K_COMPLETE if fr.disc == 0 else K_INCOMPLETE
                rec["kind"] = z3.IntVal(rec["kind_py"])
                s = fr.payloads[fr.disc][0]
                if not (isinstance(s, Agg) and len(s.fields) == 10):
                    raise Unsupported("returned sentence is %r" % (s,))
                rec["o_passthru"] = z3.BoolVal(s.fields[0] is TALKER and s.fields[1] is RTYPE and s.fields[5] is CHANNEL)
                rec["o_nf"], rec["o_fn"] = s.fields[2], s.fields[3]
                rec["o_id_d"], rec["o_id_v"] = _bytes_of_option(s.fields[4])
                if not isinstance(s.fields[6], SeqV):
                    raise Unsupported("returned data is %r" % (s.fields[6],))
                rec["o_data"] = s.fields[6].e
                rec["o_fill"], rec["o_mt"] = s.fields[7], s.fields[8]
                m = s.fields[9]
                if not (isinstance(m, EnumV) and m.ety == "Option" and isinstance(m.disc, int)):
                    raise Unsupported("returned message is %r" % (m,))
                if m.disc == 1:
                    mv = m.payloads[1][0]
                    if not (isinstance(mv, Opaque) and mv.e is not None):
                        raise Unsupported("returned message payload %r" % (mv,))
                    rec["o_msg_some"], rec["o_msg"] = z3.BoolVal(True), mv.e
        rel.paths.append(rec)
    rel.sites = sites
    rel.functions_encoded = sorted(ex.calls_inlined | {fparse.name})
    rel.summarised = sorted(ex.calls_summarised)
    rel.stats = {"paths": len(rel.paths), "panic_paths": sum(1 for p in rel.paths if p["kind_py"] == K_PANIC),
                 "blocks_executed": ex.blocks_visited, "mir_blocks_parse": len(fparse.raw), "mir_dump_s": round(dump_s, 1),
                 "encode_s": round(time.time() - t0 - dump_s, 2), "mir_lines": sum(1 for _ in open(mir_path))}
    rel.mir_path = mir_path
    return rel


def enum_last(ty):
    from .exec import enum_name_of_type
    return enum_name_of_type(ty)
