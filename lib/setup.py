"""setup_cmd: pre-build the harness crate's dependencies (Kani, three configurations) and the native replay binaries."""
import concurrent.futures
import kanirun
from common import log


def run():
    ok = True
    with concurrent.futures.ThreadPoolExecutor(max_workers=3) as ex:
        futs = {c: ex.submit(kanirun.build, c) for c in ("std", "alloc", "none")}
        for c, f in futs.items():
            r = f.result()
            log("kani build %s: %s in %.0fs" % (c, "ok" if r[0] else "FAILED", r[2]))
            ok = ok and r[0]
    for c in ("std", "alloc", "none"):
        for rel in (False, True):
            p = kanirun.build_native(c, rel)
            log("native replay %s %s: %s" % (c, "release" if rel else "debug", p))
            ok = ok and bool(p)
    return 0 if ok else 1
