//! C10 (coordinates sign-extended and scaled; speeds / courses / draught scaled) and
//! C11 ('not available' sentinels, and only those, decode to an absent value).
//! Oracle for scaled floats: ULP distance <= 1 from the single-precision quotient raw/D
//! (see DESIGN.md C10 for why this is the reading of "correct to single-precision rounding").
use crate::nd::Nd;
use crate::p_c04::must;
use crate::spec::*;
use ais::messages::navigation::*;
use ais::messages::AisMessageType;

#[inline(always)]
fn raw_s(d: &[u8], off: usize, w: usize) -> i32 {
    sext(bits(d, off, w), w)
}
#[inline(always)]
fn raw_u(d: &[u8], off: usize, w: usize) -> i32 {
    bits(d, off, w) as i32
}

macro_rules! c10_scaled {
    ($opt:expr, $raw:expr, $div:expr, $msg:literal) => {
        if let Some(v) = $opt {
            assert!(close_f32(v, $raw, $div), $msg);
        }
    };
}
macro_rules! c10_exact {
    ($opt:expr, $raw:expr, $msg:literal) => {
        if let Some(v) = $opt {
            assert!(v == ($raw) as f32, $msg);
        }
    };
}
/// C11: absent exactly for the sentinel
macro_rules! c11_none_iff {
    ($opt:expr, $raw:expr, $sentinel:expr, $msg:literal) => {
        assert!(($opt).is_none() == (($raw) == ($sentinel)), $msg)
    };
}
/// C11: integer option: absent for the sentinel, otherwise the transmitted value
macro_rules! c11_int {
    ($opt:expr, $raw:expr, $sentinel:expr, $msg:literal) => {
        match $opt {
            None => assert!(($raw) == ($sentinel), $msg),
            Some(x) => assert!(($raw) != ($sentinel) && (x as i64) == (($raw) as i64), $msg),
        }
    };
}

// ---------------------------------------------------------------- leaves (all raw values of the width)

pub fn c10_leaf_lon<N: Nd>(nd: &mut N) {
    let raw = nd.i32();
    nd.assume(raw >= -(1 << 27) && raw < (1 << 27));
    c10_scaled!(parse_longitude(raw), raw, 600000.0, "C10 leaf longitude raw/600000");
    c11_none_iff!(parse_longitude(raw), raw, 108_600_000, "C11 leaf longitude sentinel 181 degrees");
    crate::cover!(raw == -(1 << 27), "most negative longitude reachable");
}
pub fn c10_leaf_lat<N: Nd>(nd: &mut N) {
    let raw = nd.i32();
    nd.assume(raw >= -(1 << 26) && raw < (1 << 26));
    c10_scaled!(parse_latitude(raw), raw, 600000.0, "C10 leaf latitude raw/600000");
    c11_none_iff!(parse_latitude(raw), raw, 54_600_000, "C11 leaf latitude sentinel 91 degrees");
    crate::cover!(raw == -(1 << 26), "most negative latitude reachable");
}
pub fn c10_leaf_sog_cog<N: Nd>(nd: &mut N) {
    let s = nd.u16();
    nd.assume(s < 1024);
    c10_scaled!(parse_speed_over_ground(s), s as i32, 10.0, "C10 leaf speed raw/10");
    c11_none_iff!(parse_speed_over_ground(s), s, 1023, "C11 leaf speed sentinel 1023");
    let c = nd.u16();
    nd.assume(c < 4096);
    c10_scaled!(parse_cog(c), c as i32, 10.0, "C10 leaf course raw/10");
    c11_none_iff!(parse_cog(c), c, 3600, "C11 leaf course sentinel 3600");
    let h = nd.u16();
    nd.assume(h < 512);
    c11_int!(parse_heading(h), h, 511, "C11 leaf heading sentinel 511");
    let r = nd.u8();
    assert!(RateOfTurn::parse(r).is_none() == (r == 0x80), "C11 leaf rate of turn sentinel -128");
    crate::cover!(s == 1022 && c == 3599 && h == 510 && r == 0x7f, "leaf extremes reachable");
}

// ---------------------------------------------------------------- wiring per message type

/// rate of turn: absent iff -128; sign carried by direction()
#[inline(always)]
fn rot_ok(r: Option<RateOfTurn>, raw: u8) -> bool {
    match r {
        None => raw == 0x80,
        Some(x) => {
            let s = raw as i8;
            raw != 0x80
                && match x.direction() {
                    None => s == 0,
                    Some(Direction::Starboard) => s > 0,
                    Some(Direction::Port) => s < 0,
                }
        }
    }
}

macro_rules! t01_decode {
    ($nd:ident, $d:ident, $m:ident) => {
        use ais::messages::position_report::PositionReport;
        let $d: [u8; 21] = $nd.bytes();
        let t = bits(&$d, 0, 6);
        $nd.assume(t >= 1 && t <= 3);
        let $m = must!(PositionReport::parse(&$d), "a 168-bit type 1-3 payload must decode");
    };
}
pub fn c10_t01<N: Nd>(nd: &mut N) {
    t01_decode!(nd, d, m);
    c10_scaled!(m.longitude, raw_s(&d, 61, 28), 600000.0, "C10 t1 longitude");
    c10_scaled!(m.latitude, raw_s(&d, 89, 27), 600000.0, "C10 t1 latitude");
    c10_scaled!(m.speed_over_ground, raw_u(&d, 50, 10), 10.0, "C10 t1 speed");
    c10_scaled!(m.course_over_ground, raw_u(&d, 116, 12), 10.0, "C10 t1 course");
    crate::cover!(m.longitude.is_some() && raw_s(&d, 61, 28) == -(1 << 27), "t1 most negative longitude reachable");
}
pub fn c11_t01<N: Nd>(nd: &mut N) {
    t01_decode!(nd, d, m);
    c11_none_iff!(m.longitude, raw_s(&d, 61, 28), 108_600_000, "C11 t1 longitude");
    c11_none_iff!(m.latitude, raw_s(&d, 89, 27), 54_600_000, "C11 t1 latitude");
    c11_none_iff!(m.speed_over_ground, raw_u(&d, 50, 10), 1023, "C11 t1 speed");
    c11_none_iff!(m.course_over_ground, raw_u(&d, 116, 12), 3600, "C11 t1 course");
    c11_int!(m.true_heading, raw_u(&d, 128, 9), 511, "C11 t1 heading");
    assert!(rot_ok(m.rate_of_turn, bits(&d, 42, 8) as u8), "C11 t1 rate of turn");
    crate::cover!(m.longitude.is_none() && m.true_heading == Some(510), "t1 sentinel reachable");
}

macro_rules! t04_like {
    ($c10:ident, $c11:ident, $ty:path, $t:literal) => {
        pub fn $c10<N: Nd>(nd: &mut N) {
            use $ty as T;
            let d: [u8; 21] = nd.bytes();
            nd.assume(bits(&d, 0, 6) == $t);
            let m = must!(T::parse(&d), "a 168-bit type 4/11 payload must decode");
            c10_scaled!(m.longitude, raw_s(&d, 79, 28), 600000.0, "C10 t4/11 longitude");
            c10_scaled!(m.latitude, raw_s(&d, 107, 27), 600000.0, "C10 t4/11 latitude");
            crate::cover!(m.latitude.is_some() && raw_s(&d, 107, 27) == -(1 << 26), "t4/11 most negative latitude reachable");
        }
        pub fn $c11<N: Nd>(nd: &mut N) {
            use $ty as T;
            let d: [u8; 21] = nd.bytes();
            nd.assume(bits(&d, 0, 6) == $t);
            let m = must!(T::parse(&d), "a 168-bit type 4/11 payload must decode");
            c11_none_iff!(m.longitude, raw_s(&d, 79, 28), 108_600_000, "C11 t4/11 longitude");
            c11_none_iff!(m.latitude, raw_s(&d, 107, 27), 54_600_000, "C11 t4/11 latitude");
            c11_int!(m.year, raw_u(&d, 38, 14), 0, "C11 t4/11 year");
            c11_int!(m.month, raw_u(&d, 52, 4), 0, "C11 t4/11 month");
            c11_int!(m.day, raw_u(&d, 56, 5), 0, "C11 t4/11 day");
            c11_int!(m.minute, raw_u(&d, 66, 6), 60, "C11 t4/11 minute");
            c11_int!(m.second, raw_u(&d, 72, 6), 60, "C11 t4/11 second");
            crate::cover!(m.year.is_none() && m.second == Some(61), "t4/11 sentinel reachable");
        }
    };
}
t04_like!(c10_t04, c11_t04, ais::messages::base_station_report::BaseStationReport, 4);
t04_like!(c10_t11, c11_t11, ais::messages::utc_date_response::UtcDateResponse, 11);

/// type 5: draught, ETA sentinels (text skipped by the stub)
pub fn c10_t05<N: Nd>(nd: &mut N) {
    use ais::messages::static_and_voyage_related_data::StaticAndVoyageRelatedData;
    let d: [u8; 53] = nd.bytes();
    let m = must!(StaticAndVoyageRelatedData::parse(&d), "a 424-bit type 5 payload must decode");
    assert!(close_f32(m.draught, raw_u(&d, 294, 8), 10.0), "C10 t5 draught raw/10");
    crate::cover!(raw_u(&d, 294, 8) == 255, "t5 max draught reachable");
}
pub fn c11_t05<N: Nd>(nd: &mut N) {
    use ais::messages::static_and_voyage_related_data::StaticAndVoyageRelatedData;
    let d: [u8; 53] = nd.bytes();
    let m = must!(StaticAndVoyageRelatedData::parse(&d), "a 424-bit type 5 payload must decode");
    c11_int!(m.eta_month_utc, raw_u(&d, 274, 4), 0, "C11 t5 eta month");
    c11_int!(m.eta_day_utc, raw_u(&d, 278, 5), 0, "C11 t5 eta day");
    c11_int!(m.eta_minute_utc, raw_u(&d, 288, 6), 60, "C11 t5 eta minute");
    crate::cover!(m.eta_month_utc.is_none() && m.eta_minute_utc == Some(63), "t5 sentinel reachable");
}

macro_rules! t09_decode {
    ($nd:ident, $d:ident, $m:ident) => {
        use ais::messages::standard_aircraft_position_report::SARPositionReport;
        let $d: [u8; 21] = $nd.bytes();
        $nd.assume(bits(&$d, 0, 6) == 9);
        let $m = must!(SARPositionReport::parse(&$d), "a 168-bit type 9 payload must decode");
    };
}
pub fn c10_t09<N: Nd>(nd: &mut N) {
    t09_decode!(nd, d, m);
    c10_scaled!(m.longitude, raw_s(&d, 61, 28), 600000.0, "C10 t9 longitude");
    c10_scaled!(m.latitude, raw_s(&d, 89, 27), 600000.0, "C10 t9 latitude");
    c10_exact!(m.speed_over_ground, raw_u(&d, 50, 10), "C10 t9 speed is reported undivided");
    c10_scaled!(m.course_over_ground, raw_u(&d, 116, 12), 10.0, "C10 t9 course");
    crate::cover!(m.speed_over_ground.is_some() && raw_u(&d, 50, 10) == 1022, "t9 speed 1022 reachable");
}
pub fn c11_t09<N: Nd>(nd: &mut N) {
    t09_decode!(nd, d, m);
    c11_none_iff!(m.longitude, raw_s(&d, 61, 28), 108_600_000, "C11 t9 longitude");
    c11_none_iff!(m.latitude, raw_s(&d, 89, 27), 54_600_000, "C11 t9 latitude");
    c11_none_iff!(m.speed_over_ground, raw_u(&d, 50, 10), 1023, "C11 t9 speed");
    c11_none_iff!(m.course_over_ground, raw_u(&d, 116, 12), 3600, "C11 t9 course");
    c11_int!(m.altitude, raw_u(&d, 38, 12), 4095, "C11 t9 altitude");
    crate::cover!(m.altitude.is_none() && m.speed_over_ground.is_none(), "t9 sentinels reachable");
}

/// type 15: slot offset 0 = absent, every other value present - in the 88-, 110- and 160-bit forms
pub fn c11_t15_88<N: Nd>(nd: &mut N) {
    use ais::messages::interrogation::Interrogation;
    let d: [u8; 11] = nd.bytes();
    let m = must!(Interrogation::parse(&d), "an 88-bit type 15 payload must decode");
    assert!(m.stations.len() == 1 && m.stations[0].messages.len() == 1, "C11 t15/88 structure");
    c11_int!(m.stations[0].messages[0].slot_offset, raw_u(&d, 76, 12), 0, "C11 t15 slot offset 1.1 (88-bit form)");
    crate::cover!(m.stations[0].messages[0].slot_offset == Some(1), "t15/88 present offset reachable");
}
pub fn c11_t15_110<N: Nd>(nd: &mut N) {
    use ais::messages::interrogation::Interrogation;
    let d: [u8; 14] = nd.bytes();
    nd.assume(bits(&d, 90, 6) != 0);
    let m = must!(Interrogation::parse(&d), "a 110-bit type 15 payload must decode");
    assert!(m.stations.len() == 1 && m.stations[0].messages.len() == 2, "C11 t15/110 structure");
    c11_int!(m.stations[0].messages[0].slot_offset, raw_u(&d, 76, 12), 0, "C11 t15 slot offset 1.1 (110-bit form)");
    c11_int!(m.stations[0].messages[1].slot_offset, raw_u(&d, 96, 12), 0, "C11 t15 slot offset 1.2 (110-bit form)");
    crate::cover!(m.stations[0].messages[1].slot_offset.is_none(), "t15/110 absent offset reachable");
}
pub fn c11_t15<N: Nd>(nd: &mut N) {
    use ais::messages::interrogation::Interrogation;
    let d: [u8; 20] = nd.bytes();
    nd.assume(bits(&d, 90, 6) != 0);
    let m = must!(Interrogation::parse(&d), "a 160-bit type 15 payload must decode");
    assert!(m.stations.len() == 2 && m.stations[0].messages.len() == 2 && m.stations[1].messages.len() >= 1, "C11 t15 structure");
    c11_int!(m.stations[0].messages[0].slot_offset, raw_u(&d, 76, 12), 0, "C11 t15 slot offset 1.1");
    c11_int!(m.stations[0].messages[1].slot_offset, raw_u(&d, 96, 12), 0, "C11 t15 slot offset 1.2");
    c11_int!(m.stations[1].messages[0].slot_offset, raw_u(&d, 146, 12), 0, "C11 t15 slot offset 2.1");
    crate::cover!(m.stations[1].messages[0].slot_offset.is_none(), "t15 absent offset reachable");
}

/// type 17: 18/17-bit coordinates in 1/10 minute
pub fn c10_t17<N: Nd>(nd: &mut N) {
    use ais::messages::dgnss_broadcast_binary_message::DgnssBroadcastBinaryMessage;
    let d: [u8; 15] = nd.bytes();
    let m = must!(DgnssBroadcastBinaryMessage::parse(&d), "a type 17 payload with both headers must decode");
    c10_scaled!(m.longitude, raw_s(&d, 40, 18), 600.0, "C10 t17 longitude raw/600");
    c10_scaled!(m.latitude, raw_s(&d, 58, 17), 600.0, "C10 t17 latitude raw/600");
    c11_none_iff!(m.longitude, raw_s(&d, 40, 18), 108_600, "C11 t17 longitude sentinel at 1/10 minute");
    c11_none_iff!(m.latitude, raw_s(&d, 58, 17), 54_600, "C11 t17 latitude sentinel at 1/10 minute");
    crate::cover!(m.longitude.is_some() && raw_s(&d, 40, 18) == -(1 << 17), "t17 most negative longitude reachable");
}

macro_rules! t18_decode {
    ($nd:ident, $d:ident, $m:ident) => {
        use ais::messages::standard_class_b_position_report::StandardClassBPositionReport;
        let $d: [u8; 21] = $nd.bytes();
        let $m = must!(StandardClassBPositionReport::parse(&$d), "a 168-bit type 18 payload must decode");
    };
}
pub fn c10_t18<N: Nd>(nd: &mut N) {
    t18_decode!(nd, d, m);
    c10_scaled!(m.longitude, raw_s(&d, 57, 28), 600000.0, "C10 t18 longitude");
    c10_scaled!(m.latitude, raw_s(&d, 85, 27), 600000.0, "C10 t18 latitude");
    c10_scaled!(m.speed_over_ground, raw_u(&d, 46, 10), 10.0, "C10 t18 speed");
    c10_scaled!(m.course_over_ground, raw_u(&d, 112, 12), 10.0, "C10 t18 course");
    crate::cover!(m.longitude.is_some() && raw_s(&d, 57, 28) == -(1 << 27), "t18 most negative longitude reachable");
}
pub fn c11_t18<N: Nd>(nd: &mut N) {
    t18_decode!(nd, d, m);
    c11_none_iff!(m.longitude, raw_s(&d, 57, 28), 108_600_000, "C11 t18 longitude");
    c11_none_iff!(m.latitude, raw_s(&d, 85, 27), 54_600_000, "C11 t18 latitude");
    c11_none_iff!(m.speed_over_ground, raw_u(&d, 46, 10), 1023, "C11 t18 speed");
    c11_none_iff!(m.course_over_ground, raw_u(&d, 112, 12), 3600, "C11 t18 course");
    c11_int!(m.true_heading, raw_u(&d, 124, 9), 511, "C11 t18 heading");
    crate::cover!(m.course_over_ground.is_none() && m.true_heading.is_none(), "t18 sentinels reachable");
}

macro_rules! t19_decode {
    ($nd:ident, $d:ident, $m:ident) => {
        use ais::messages::extended_class_b_position_report::ExtendedClassBPositionReport;
        let $d: [u8; 39] = $nd.bytes();
        let $m = must!(ExtendedClassBPositionReport::parse(&$d), "a 312-bit type 19 payload must decode");
    };
}
pub fn c10_t19<N: Nd>(nd: &mut N) {
    t19_decode!(nd, d, m);
    c10_scaled!(m.longitude, raw_s(&d, 57, 28), 600000.0, "C10 t19 longitude");
    c10_scaled!(m.latitude, raw_s(&d, 85, 27), 600000.0, "C10 t19 latitude");
    c10_scaled!(m.speed_over_ground, raw_u(&d, 46, 10), 10.0, "C10 t19 speed");
    c10_scaled!(m.course_over_ground, raw_u(&d, 112, 12), 10.0, "C10 t19 course");
    crate::cover!(m.latitude.is_some() && raw_s(&d, 85, 27) == -(1 << 26), "t19 most negative latitude reachable");
}
pub fn c11_t19<N: Nd>(nd: &mut N) {
    t19_decode!(nd, d, m);
    c11_none_iff!(m.longitude, raw_s(&d, 57, 28), 108_600_000, "C11 t19 longitude");
    c11_none_iff!(m.latitude, raw_s(&d, 85, 27), 54_600_000, "C11 t19 latitude");
    c11_none_iff!(m.speed_over_ground, raw_u(&d, 46, 10), 1023, "C11 t19 speed");
    c11_none_iff!(m.course_over_ground, raw_u(&d, 112, 12), 3600, "C11 t19 course");
    c11_int!(m.true_heading, raw_u(&d, 124, 9), 511, "C11 t19 heading");
    crate::cover!(m.speed_over_ground.is_none() && m.true_heading == Some(0), "t19 sentinels reachable");
}

macro_rules! t21_decode {
    ($nd:ident, $d:ident, $m:ident) => {
        use ais::messages::aid_to_navigation_report::AidToNavigationReport;
        let $d: [u8; 34] = $nd.bytes();
        let $m = must!(AidToNavigationReport::parse(&$d), "a 272-bit type 21 payload must decode");
    };
}
pub fn c10_t21<N: Nd>(nd: &mut N) {
    t21_decode!(nd, d, m);
    c10_scaled!(m.longitude, raw_s(&d, 164, 28), 600000.0, "C10 t21 longitude");
    c10_scaled!(m.latitude, raw_s(&d, 192, 27), 600000.0, "C10 t21 latitude");
    crate::cover!(m.longitude.is_some() && raw_s(&d, 164, 28) == -(1 << 27), "t21 most negative longitude reachable");
}
pub fn c11_t21<N: Nd>(nd: &mut N) {
    t21_decode!(nd, d, m);
    c11_none_iff!(m.longitude, raw_s(&d, 164, 28), 108_600_000, "C11 t21 longitude");
    c11_none_iff!(m.latitude, raw_s(&d, 192, 27), 54_600_000, "C11 t21 latitude");
    crate::cover!(m.longitude.is_none() && m.latitude.is_none(), "t21 sentinels reachable");
}

macro_rules! t27_decode {
    ($nd:ident, $d:ident, $m:ident) => {
        use ais::messages::long_range_ais_broadcast::LongRangeAisBroadcastMessage;
        let $d: [u8; 12] = $nd.bytes();
        $nd.assume(bits(&$d, 0, 6) == 27);
        let $m = must!(LongRangeAisBroadcastMessage::parse(&$d), "a 96-bit type 27 payload must decode");
    };
}
pub fn c10_t27<N: Nd>(nd: &mut N) {
    t27_decode!(nd, d, m);
    c10_scaled!(m.longitude, raw_s(&d, 44, 18), 600.0, "C10 t27 longitude raw/600");
    c10_scaled!(m.latitude, raw_s(&d, 62, 17), 600.0, "C10 t27 latitude raw/600");
    c10_exact!(m.speed_over_ground, raw_u(&d, 79, 6), "C10 t27 speed is reported undivided");
    c10_exact!(m.course_over_ground, raw_u(&d, 85, 9), "C10 t27 course is reported undivided");
    crate::cover!(m.longitude.is_some() && raw_s(&d, 44, 18) == -(1 << 17), "t27 most negative longitude reachable");
}
pub fn c11_t27<N: Nd>(nd: &mut N) {
    t27_decode!(nd, d, m);
    c11_none_iff!(m.longitude, raw_s(&d, 44, 18), 108_600, "C11 t27 longitude sentinel at 1/10 minute");
    c11_none_iff!(m.latitude, raw_s(&d, 62, 17), 54_600, "C11 t27 latitude sentinel at 1/10 minute");
    c11_none_iff!(m.speed_over_ground, raw_u(&d, 79, 6), 63, "C11 t27 speed sentinel 63");
    c11_none_iff!(m.course_over_ground, raw_u(&d, 85, 9), 511, "C11 t27 course sentinel 511");
    crate::cover!(m.longitude.is_none() && m.course_over_ground.is_none(), "t27 sentinels reachable");
}

// ---------------------------------------------------------------- C10 wiring with identity-encoding leaf stubs
// (fast path: integer reasoning only; the direct float harnesses above are the fallback and the thorough tier)
use crate::stubs::{COG_TAG, LAT_TAG, LON_TAG, SOG_TAG};

macro_rules! wired {
    ($opt:expr, $raw:expr, $tag:expr, $msg:literal) => {
        match $opt {
            Some(v) => assert!(v.to_bits() == (($raw) as u32) ^ $tag, $msg),
            None => assert!(false, $msg),
        }
    };
}

pub fn c10w_t01<N: Nd>(nd: &mut N) {
    t01_decode!(nd, d, m);
    wired!(m.longitude, raw_s(&d, 61, 28), LON_TAG, "C10 t1 longitude = leaf(sign-extended bits 61..89)");
    wired!(m.latitude, raw_s(&d, 89, 27), LAT_TAG, "C10 t1 latitude = leaf(sign-extended bits 89..116)");
    wired!(m.speed_over_ground, raw_u(&d, 50, 10), SOG_TAG, "C10 t1 speed = leaf(bits 50..60)");
    wired!(m.course_over_ground, raw_u(&d, 116, 12), COG_TAG, "C10 t1 course = leaf(bits 116..128)");
    crate::cover!(raw_s(&d, 61, 28) == -(1 << 27) && raw_s(&d, 89, 27) == -(1 << 26), "t1 most negative coordinates reachable");
}
macro_rules! c10w_t04_like {
    ($name:ident, $ty:path, $t:literal) => {
        pub fn $name<N: Nd>(nd: &mut N) {
            use $ty as T;
            let d: [u8; 21] = nd.bytes();
            nd.assume(bits(&d, 0, 6) == $t);
            let m = must!(T::parse(&d), "a 168-bit type 4/11 payload must decode");
            wired!(m.longitude, raw_s(&d, 79, 28), LON_TAG, "C10 t4/11 longitude = leaf(sign-extended bits 79..107)");
            wired!(m.latitude, raw_s(&d, 107, 27), LAT_TAG, "C10 t4/11 latitude = leaf(sign-extended bits 107..134)");
            crate::cover!(raw_s(&d, 79, 28) == -(1 << 27), "t4/11 most negative longitude reachable");
        }
    };
}
c10w_t04_like!(c10w_t04, ais::messages::base_station_report::BaseStationReport, 4);
c10w_t04_like!(c10w_t11, ais::messages::utc_date_response::UtcDateResponse, 11);
pub fn c10w_t09<N: Nd>(nd: &mut N) {
    t09_decode!(nd, d, m);
    wired!(m.longitude, raw_s(&d, 61, 28), LON_TAG, "C10 t9 longitude = leaf(sign-extended bits 61..89)");
    wired!(m.latitude, raw_s(&d, 89, 27), LAT_TAG, "C10 t9 latitude = leaf(sign-extended bits 89..116)");
    c10_exact!(m.speed_over_ground, raw_u(&d, 50, 10), "C10 t9 speed is reported undivided");
    wired!(m.course_over_ground, raw_u(&d, 116, 12), COG_TAG, "C10 t9 course = leaf(bits 116..128)");
    crate::cover!(m.speed_over_ground.is_some() && raw_u(&d, 50, 10) == 1022, "t9 speed 1022 reachable");
}
pub fn c10w_t18<N: Nd>(nd: &mut N) {
    t18_decode!(nd, d, m);
    wired!(m.longitude, raw_s(&d, 57, 28), LON_TAG, "C10 t18 longitude = leaf(sign-extended bits 57..85)");
    wired!(m.latitude, raw_s(&d, 85, 27), LAT_TAG, "C10 t18 latitude = leaf(sign-extended bits 85..112)");
    wired!(m.speed_over_ground, raw_u(&d, 46, 10), SOG_TAG, "C10 t18 speed = leaf(bits 46..56)");
    wired!(m.course_over_ground, raw_u(&d, 112, 12), COG_TAG, "C10 t18 course = leaf(bits 112..124)");
    crate::cover!(raw_s(&d, 57, 28) == -(1 << 27), "t18 most negative longitude reachable");
}
pub fn c10w_t19<N: Nd>(nd: &mut N) {
    t19_decode!(nd, d, m);
    wired!(m.longitude, raw_s(&d, 57, 28), LON_TAG, "C10 t19 longitude = leaf(sign-extended bits 57..85)");
    wired!(m.latitude, raw_s(&d, 85, 27), LAT_TAG, "C10 t19 latitude = leaf(sign-extended bits 85..112)");
    wired!(m.speed_over_ground, raw_u(&d, 46, 10), SOG_TAG, "C10 t19 speed = leaf(bits 46..56)");
    wired!(m.course_over_ground, raw_u(&d, 112, 12), COG_TAG, "C10 t19 course = leaf(bits 112..124)");
    crate::cover!(raw_s(&d, 85, 27) == -(1 << 26), "t19 most negative latitude reachable");
}
pub fn c10w_t21<N: Nd>(nd: &mut N) {
    t21_decode!(nd, d, m);
    wired!(m.longitude, raw_s(&d, 164, 28), LON_TAG, "C10 t21 longitude = leaf(sign-extended bits 164..192)");
    wired!(m.latitude, raw_s(&d, 192, 27), LAT_TAG, "C10 t21 latitude = leaf(sign-extended bits 192..219)");
    crate::cover!(raw_s(&d, 164, 28) == -(1 << 27), "t21 most negative longitude reachable");
}

/// type 27 split per field (the two-step raw/600000*1000 computation is the expensive one)
pub fn c10_t27_lon<N: Nd>(nd: &mut N) {
    t27_decode!(nd, d, m);
    c10_scaled!(m.longitude, raw_s(&d, 44, 18), 600.0, "C10 t27 longitude raw/600");
    crate::cover!(m.longitude.is_some() && raw_s(&d, 44, 18) == -(1 << 17), "t27 most negative longitude reachable");
}
pub fn c10_t27_lat<N: Nd>(nd: &mut N) {
    t27_decode!(nd, d, m);
    c10_scaled!(m.latitude, raw_s(&d, 62, 17), 600.0, "C10 t27 latitude raw/600");
    crate::cover!(m.latitude.is_some() && raw_s(&d, 62, 17) == -(1 << 16), "t27 most negative latitude reachable");
}
pub fn c10_t27_sogcog<N: Nd>(nd: &mut N) {
    t27_decode!(nd, d, m);
    c10_exact!(m.speed_over_ground, raw_u(&d, 79, 6), "C10 t27 speed is reported undivided");
    c10_exact!(m.course_over_ground, raw_u(&d, 85, 9), "C10 t27 course is reported undivided");
    crate::cover!(m.speed_over_ground.is_some() && m.course_over_ground.is_some(), "t27 speed and course reachable");
}

pub mod wp {
    use super::*;
    crate::harnesses!(LP; plain; unwind 6;
        c10_leaf_lon, c10_leaf_lat, c10_leaf_sog_cog,
        c10_t01, c11_t01, c10_t04, c11_t04, c10_t11, c11_t11, c10_t09, c11_t09, c11_t15, c11_t15_88, c11_t15_110, c10_t17,
        c10_t18, c11_t18, c10_t27, c11_t27, c10_t27_lon, c10_t27_lat, c10_t27_sogcog);
}
pub mod wn {
    use super::*;
    crate::harnesses!(LN; navstub; unwind 6; c10w_t01, c10w_t04, c10w_t11, c10w_t09, c10w_t18);
}
pub mod wnt {
    use super::*;
    crate::harnesses!(LNT; navstub_text; unwind 6; c10w_t19, c10w_t21);
}
pub mod wt {
    use super::*;
    crate::harnesses!(LT; skiptext; unwind 6; c10_t05, c11_t05, c10_t19, c11_t19, c10_t21, c11_t21);
}
