//! C15: binary application payloads (types 6, 8; correction data of type 17) are passed through
//! bit-exactly: returned bytes == payload bytes after the fixed header, count == length - header.
//! Payload length concrete per harness (array size), header and contents symbolic.
use crate::nd::Nd;
use crate::spec::*;
use ais::messages::AisMessageType;

#[cfg(all(not(feature = "std"), not(feature = "alloc")))]
const CAP: usize = 119;
#[cfg(any(feature = "std", feature = "alloc"))]
const CAP: usize = usize::MAX;

macro_rules! passthru {
    ($name:ident, $ty:path, $hdr:literal, $total:literal, |$m:ident, $d:ident| $hdrchk:block, $data:expr) => {
        pub fn $name<N: Nd>(nd: &mut N) {
            use $ty as T;
            let $d: [u8; $total] = nd.bytes();
            let p: usize = $total - $hdr;
            match T::parse(&$d) {
                Err(_) => assert!(p > CAP, "C15: a binary message within the capacity must decode"),
                Ok($m) => {
                    assert!(p <= CAP, "C15: the no-allocator build must reject more than 119 data bytes, never truncate");
                    $hdrchk
                    let out = $data;
                    assert!(out.len() == p, "C15: number of data bytes = unarmored length - header bytes");
                    let mut i = 0;
                    while i < p {
                        assert!(out[i] == $d[$hdr + i], "C15: data byte passed through unchanged");
                        i += 1;
                    }
                }
            }
            crate::cover!(true, "end of harness reachable");
        }
    };
}
macro_rules! t06 {
    ($name:ident, $total:literal) => {
        passthru!($name, ais::messages::binary_addressed::BinaryAddressedMessage, 11, $total, |m, d| {
            assert!(m.dac as u64 == bits(&d, 72, 10) && m.fid as u64 == bits(&d, 82, 6), "C15 t6 application identifier");
            assert!(m.dest_mmsi as u64 == bits(&d, 40, 30), "C15 t6 destination");
        }, &m.data);
    };
}
macro_rules! t08 {
    ($name:ident, $total:literal) => {
        passthru!($name, ais::messages::binary_broadcast_message::BinaryBroadcastMessage, 7, $total, |m, d| {
            assert!(m.dac as u64 == bits(&d, 40, 10) && m.fid as u64 == bits(&d, 50, 6), "C15 t8 application identifier");
        }, &m.data);
    };
}
macro_rules! t17 {
    ($name:ident, $total:literal) => {
        passthru!($name, ais::messages::dgnss_broadcast_binary_message::DgnssBroadcastBinaryMessage, 15, $total, |m, d| {
            assert!(m.payload.station_id as u64 == bits(&d, 86, 10) && m.payload.z_count as u64 == bits(&d, 96, 13), "C15 t17 DGNSS header");
            assert!(m.payload.n as u64 == bits(&d, 112, 5) && m.payload.health as u64 == bits(&d, 117, 3), "C15 t17 DGNSS header");
        }, &m.payload.data);
    };
}
// data lengths 0, 1, 2, 8, 9 (quick) and 63, 64, protocol maxima and the heapless capacity edge (thorough)
t06!(c15_t06_p000, 11);
t06!(c15_t06_p001, 12);
t06!(c15_t06_p009, 20);
t06!(c15_t06_p064, 75);
t06!(c15_t06_p033, 44);
t06!(c15_t06_p100, 111);
t06!(c15_t06_p114, 125);
t06!(c15_t06_p115, 126);
t06!(c15_t06_p119, 130);
t06!(c15_t06_p120, 131);
t08!(c15_t08_p000, 7);
t08!(c15_t08_p002, 9);
t08!(c15_t08_p008, 15);
t08!(c15_t08_p063, 70);
t08!(c15_t08_p032, 39);
t08!(c15_t08_p100, 107);
t08!(c15_t08_p117, 124);
t08!(c15_t08_p118, 125);
t08!(c15_t08_p119, 126);
t08!(c15_t08_p120, 127);
t17!(c15_t17_p000, 15);
t17!(c15_t17_p003, 18);
t17!(c15_t17_p040, 55);
t17!(c15_t17_p086, 101);
t17!(c15_t17_p087, 102);
t17!(c15_t17_p120, 135);


pub mod ws {
    use super::*;
    crate::harnesses!(LS; plain; unwind 12; c15_t06_p000, c15_t06_p001, c15_t06_p009, c15_t08_p000, c15_t08_p002, c15_t08_p008,
        c15_t17_p000, c15_t17_p003);
}
pub mod wl {
    use super::*;
    crate::harnesses!(LL; plain; unwind 123; c15_t06_p064, c15_t06_p115, c15_t06_p119, c15_t06_p120, c15_t08_p063, c15_t08_p119,
        c15_t08_p120, c15_t17_p087, c15_t17_p120, c15_t08_p032, c15_t08_p100, c15_t08_p117, c15_t08_p118, c15_t06_p033, c15_t06_p100,
        c15_t06_p114, c15_t17_p040, c15_t17_p086);
}
