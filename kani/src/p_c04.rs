//! C04: every fixed-position integer / flag / identifier field equals the transmitted bits.
//! Offsets and widths are transcribed from ITU-R M.1371-5 Annex 8 (tables 46-79) and the AIVDM
//! description, *not* from the implementation.  One harness per layout (and layout branch); the
//! whole payload is symbolic, so every field is checked jointly with all neighbours.
use crate::nd::Nd;
use crate::spec::*;
use ais::messages::AisMessageType;

macro_rules! eq {
    ($v:expr, $d:expr, $off:expr, $w:expr, $msg:literal) => {
        assert!(($v) as u64 == bits(&$d, $off, $w), $msg)
    };
}
macro_rules! flag {
    ($v:expr, $d:expr, $off:expr, $msg:literal) => {
        assert!(($v) == (bits(&$d, $off, 1) == 1), $msg)
    };
}
macro_rules! must {
    ($r:expr, $msg:literal) => {
        match $r {
            Ok(m) => m,
            Err(_) => {
                assert!(false, $msg);
                return;
            }
        }
    };
}
pub(crate) use {eq, flag, must};

/// types 1-3, 168 bits
pub fn c04_t01<N: Nd>(nd: &mut N) {
    use ais::messages::position_report::PositionReport;
    let d: [u8; 21] = nd.bytes();
    let t = bits(&d, 0, 6);
    nd.assume(t >= 1 && t <= 3);
    let m = must!(PositionReport::parse(&d), "C04: a 168-bit type 1-3 payload must decode");
    eq!(m.message_type, d, 0, 6, "C04 t1 message_type");
    eq!(m.repeat_indicator, d, 6, 2, "C04 t1 repeat_indicator");
    eq!(m.mmsi, d, 8, 30, "C04 t1 mmsi");
    eq!(m.timestamp, d, 137, 6, "C04 t1 timestamp");
    flag!(m.raim, d, 148, "C04 t1 raim");
    crate::cover!(m.mmsi == 0x3fff_ffff && m.timestamp == 63 && m.raim, "t1 extreme values reachable");
}

/// type 4, 168 bits
pub fn c04_t04<N: Nd>(nd: &mut N) {
    use ais::messages::base_station_report::BaseStationReport;
    let d: [u8; 21] = nd.bytes();
    nd.assume(bits(&d, 0, 6) == 4);
    let m = must!(BaseStationReport::parse(&d), "C04: a 168-bit type 4 payload must decode");
    eq!(m.message_type, d, 0, 6, "C04 t4 message_type");
    eq!(m.repeat_indicator, d, 6, 2, "C04 t4 repeat_indicator");
    eq!(m.mmsi, d, 8, 30, "C04 t4 mmsi");
    eq!(m.hour, d, 61, 5, "C04 t4 hour");
    flag!(m.raim, d, 148, "C04 t4 raim");
    // time stamps: value when present (absence is C11's subject)
    if let Some(y) = m.year {
        eq!(y, d, 38, 14, "C04 t4 year");
    }
    if let Some(x) = m.month {
        eq!(x, d, 52, 4, "C04 t4 month");
    }
    if let Some(x) = m.day {
        eq!(x, d, 56, 5, "C04 t4 day");
    }
    if let Some(x) = m.minute {
        eq!(x, d, 66, 6, "C04 t4 minute");
    }
    if let Some(x) = m.second {
        eq!(x, d, 72, 6, "C04 t4 second");
    }
    crate::cover!(m.year == Some(2024) && m.hour == 23, "t4 values reachable");
}

/// type 11, 168 bits (same layout as 4)
pub fn c04_t11<N: Nd>(nd: &mut N) {
    use ais::messages::utc_date_response::UtcDateResponse;
    let d: [u8; 21] = nd.bytes();
    nd.assume(bits(&d, 0, 6) == 11);
    let m = must!(UtcDateResponse::parse(&d), "C04: a 168-bit type 11 payload must decode");
    eq!(m.message_type, d, 0, 6, "C04 t11 message_type");
    eq!(m.repeat_indicator, d, 6, 2, "C04 t11 repeat_indicator");
    eq!(m.mmsi, d, 8, 30, "C04 t11 mmsi");
    eq!(m.hour, d, 61, 5, "C04 t11 hour");
    flag!(m.raim, d, 148, "C04 t11 raim");
    if let Some(y) = m.year {
        eq!(y, d, 38, 14, "C04 t11 year");
    }
    if let Some(x) = m.month {
        eq!(x, d, 52, 4, "C04 t11 month");
    }
    if let Some(x) = m.day {
        eq!(x, d, 56, 5, "C04 t11 day");
    }
    if let Some(x) = m.minute {
        eq!(x, d, 66, 6, "C04 t11 minute");
    }
    if let Some(x) = m.second {
        eq!(x, d, 72, 6, "C04 t11 second");
    }
    crate::cover!(m.year == Some(2024) && m.hour == 23, "t11 values reachable");
}

/// type 5, 424 bits (text fields are C13's subject and skipped by the text stub)
pub fn c04_t05<N: Nd>(nd: &mut N) {
    use ais::messages::static_and_voyage_related_data::StaticAndVoyageRelatedData;
    let d: [u8; 53] = nd.bytes();
    let m = must!(StaticAndVoyageRelatedData::parse(&d), "C04: a 424-bit type 5 payload must decode");
    eq!(m.message_type, d, 0, 6, "C04 t5 message_type");
    eq!(m.repeat_indicator, d, 6, 2, "C04 t5 repeat_indicator");
    eq!(m.mmsi, d, 8, 30, "C04 t5 mmsi");
    eq!(m.ais_version, d, 38, 2, "C04 t5 ais_version");
    eq!(m.imo_number, d, 40, 30, "C04 t5 imo_number");
    eq!(m.dimension_to_bow, d, 240, 9, "C04 t5 dimension_to_bow");
    eq!(m.dimension_to_stern, d, 249, 9, "C04 t5 dimension_to_stern");
    eq!(m.dimension_to_port, d, 258, 6, "C04 t5 dimension_to_port");
    eq!(m.dimension_to_starboard, d, 264, 6, "C04 t5 dimension_to_starboard");
    eq!(m.eta_hour_utc, d, 283, 5, "C04 t5 eta_hour");
    if let Some(x) = m.eta_month_utc {
        eq!(x, d, 274, 4, "C04 t5 eta_month");
    }
    if let Some(x) = m.eta_day_utc {
        eq!(x, d, 278, 5, "C04 t5 eta_day");
    }
    if let Some(x) = m.eta_minute_utc {
        eq!(x, d, 288, 6, "C04 t5 eta_minute");
    }
    crate::cover!(m.imo_number == 9_999_999 && m.dimension_to_bow == 511, "t5 values reachable");
}

/// type 6 header, 88 bits + 2 data bytes
pub fn c04_t06<N: Nd>(nd: &mut N) {
    use ais::messages::binary_addressed::BinaryAddressedMessage;
    let d: [u8; 13] = nd.bytes();
    let m = must!(BinaryAddressedMessage::parse(&d), "C04: a type 6 payload with a full header must decode");
    eq!(m.message_type, d, 0, 6, "C04 t6 message_type");
    eq!(m.repeat_indicator, d, 6, 2, "C04 t6 repeat_indicator");
    eq!(m.mmsi, d, 8, 30, "C04 t6 mmsi");
    eq!(m.seqno, d, 38, 2, "C04 t6 seqno");
    eq!(m.dest_mmsi, d, 40, 30, "C04 t6 dest_mmsi");
    flag!(m.retransmit, d, 70, "C04 t6 retransmit");
    eq!(m.dac, d, 72, 10, "C04 t6 dac");
    eq!(m.fid, d, 82, 6, "C04 t6 fid");
    crate::cover!(m.dac == 1023 && m.fid == 63 && m.retransmit, "t6 values reachable");
}

/// acknowledgement lists (types 7 and 13): 40 + 32 n bits, n = 1..4
macro_rules! ack_harness {
    ($name:ident, $ty:path, $len:literal, $n:literal) => {
        pub fn $name<N: Nd>(nd: &mut N) {
            use $ty as T;
            let d: [u8; $len] = nd.bytes();
            let m = must!(T::parse(&d), "C04: an acknowledgement payload with n complete entries must decode");
            eq!(m.message_type, d, 0, 6, "C04 ack message_type");
            eq!(m.repeat_indicator, d, 6, 2, "C04 ack repeat_indicator");
            eq!(m.mmsi, d, 8, 30, "C04 ack mmsi");
            assert!(m.acks.len() == $n, "C04 ack: number of entries");
            let mut i = 0;
            while i < $n {
                eq!(m.acks[i].mmsi, d, 40 + 32 * i, 30, "C04 ack entry mmsi");
                eq!(m.acks[i].seq_num, d, 70 + 32 * i, 2, "C04 ack entry seq_num");
                i += 1;
            }
            crate::cover!(m.acks[$n - 1].seq_num == 3, "ack last entry reachable");
        }
    };
}
ack_harness!(c04_t07_n1, ais::messages::binary_acknowledge::BinaryAcknowledge, 9, 1);
ack_harness!(c04_t07_n2, ais::messages::binary_acknowledge::BinaryAcknowledge, 13, 2);
ack_harness!(c04_t07_n3, ais::messages::binary_acknowledge::BinaryAcknowledge, 17, 3);
ack_harness!(c04_t07_n4, ais::messages::binary_acknowledge::BinaryAcknowledge, 21, 4);
ack_harness!(c04_t13_n1, ais::messages::safety_related_acknowledgment::SafetyRelatedAcknowledge, 9, 1);
ack_harness!(c04_t13_n2, ais::messages::safety_related_acknowledgment::SafetyRelatedAcknowledge, 13, 2);
ack_harness!(c04_t13_n3, ais::messages::safety_related_acknowledgment::SafetyRelatedAcknowledge, 17, 3);
ack_harness!(c04_t13_n4, ais::messages::safety_related_acknowledgment::SafetyRelatedAcknowledge, 21, 4);

/// type 8 header, 56 bits + 2 data bytes
pub fn c04_t08<N: Nd>(nd: &mut N) {
    use ais::messages::binary_broadcast_message::BinaryBroadcastMessage;
    let d: [u8; 9] = nd.bytes();
    let m = must!(BinaryBroadcastMessage::parse(&d), "C04: a type 8 payload with a full header must decode");
    eq!(m.message_type, d, 0, 6, "C04 t8 message_type");
    eq!(m.repeat_indicator, d, 6, 2, "C04 t8 repeat_indicator");
    eq!(m.mmsi, d, 8, 30, "C04 t8 mmsi");
    eq!(m.dac, d, 40, 10, "C04 t8 dac");
    eq!(m.fid, d, 50, 6, "C04 t8 fid");
    crate::cover!(m.dac == 1023 && m.fid == 63, "t8 values reachable");
}

/// type 9, 168 bits
pub fn c04_t09<N: Nd>(nd: &mut N) {
    use ais::messages::standard_aircraft_position_report::SARPositionReport;
    let d: [u8; 21] = nd.bytes();
    nd.assume(bits(&d, 0, 6) == 9);
    let m = must!(SARPositionReport::parse(&d), "C04: a 168-bit type 9 payload must decode");
    eq!(m.message_type, d, 0, 6, "C04 t9 message_type");
    eq!(m.repeat_indicator, d, 6, 2, "C04 t9 repeat_indicator");
    eq!(m.mmsi, d, 8, 30, "C04 t9 mmsi");
    eq!(m.timestamp, d, 128, 6, "C04 t9 timestamp");
    flag!(m.raim, d, 147, "C04 t9 raim");
    if let Some(a) = m.altitude {
        eq!(a, d, 38, 12, "C04 t9 altitude");
    }
    crate::cover!(m.altitude == Some(4094) && m.timestamp == 59, "t9 values reachable");
}

/// type 10, 72 bits
pub fn c04_t10<N: Nd>(nd: &mut N) {
    use ais::messages::utc_date_inquiry::UtcDateInquiry;
    let d: [u8; 9] = nd.bytes();
    let m = must!(UtcDateInquiry::parse(&d), "C04: a 72-bit type 10 payload must decode");
    eq!(m.message_type, d, 0, 6, "C04 t10 message_type");
    eq!(m.repeat_indicator, d, 6, 2, "C04 t10 repeat_indicator");
    eq!(m.mmsi, d, 8, 30, "C04 t10 mmsi");
    eq!(m.dest_mmsi, d, 40, 30, "C04 t10 dest_mmsi");
    crate::cover!(m.dest_mmsi == 1, "t10 values reachable");
}

/// type 12 header, 72 bits + 1 text character (text itself: C13)
pub fn c04_t12<N: Nd>(nd: &mut N) {
    use ais::messages::addressed_safety_related::AddressedSafetyRelatedMessage;
    let d: [u8; 10] = nd.bytes();
    let m = must!(AddressedSafetyRelatedMessage::parse(&d), "C04: a type 12 payload with header and text must decode");
    eq!(m.message_type, d, 0, 6, "C04 t12 message_type");
    eq!(m.repeat_indicator, d, 6, 2, "C04 t12 repeat_indicator");
    eq!(m.mmsi, d, 8, 30, "C04 t12 mmsi");
    eq!(m.seqno, d, 38, 2, "C04 t12 seqno");
    eq!(m.dest_mmsi, d, 40, 30, "C04 t12 dest_mmsi");
    flag!(m.retransmit, d, 70, "C04 t12 retransmit");
    crate::cover!(m.seqno == 3 && m.retransmit, "t12 values reachable");
}

/// type 14 header, 40 bits + 1 text character
pub fn c04_t14<N: Nd>(nd: &mut N) {
    use ais::messages::safety_related_broadcast::SafetyRelatedBroadcastMessage;
    let d: [u8; 6] = nd.bytes();
    let m = must!(SafetyRelatedBroadcastMessage::parse(&d), "C04: a type 14 payload with header and text must decode");
    eq!(m.message_type, d, 0, 6, "C04 t14 message_type");
    eq!(m.repeat_indicator, d, 6, 2, "C04 t14 repeat_indicator");
    eq!(m.mmsi, d, 8, 30, "C04 t14 mmsi");
    crate::cover!(m.mmsi == 7, "t14 values reachable");
}

/// type 15, 88 bits: one station, one request
pub fn c04_t15_88<N: Nd>(nd: &mut N) {
    use ais::messages::interrogation::Interrogation;
    let d: [u8; 11] = nd.bytes();
    let m = must!(Interrogation::parse(&d), "C04: an 88-bit type 15 payload must decode");
    eq!(m.message_type, d, 0, 6, "C04 t15 message_type");
    eq!(m.repeat_indicator, d, 6, 2, "C04 t15 repeat_indicator");
    eq!(m.mmsi, d, 8, 30, "C04 t15 mmsi");
    assert!(m.stations.len() == 1, "C04 t15/88: one station");
    eq!(m.stations[0].mmsi, d, 40, 30, "C04 t15 station 1 mmsi");
    assert!(m.stations[0].messages.len() == 1, "C04 t15/88: one request");
    eq!(m.stations[0].messages[0].message_type, d, 70, 6, "C04 t15 request 1.1 type");
    assert!(m.stations[0].messages[0].slot_offset.unwrap_or(0) as u64 == bits(&d, 76, 12), "C04 t15 request 1.1 slot offset (0 = absent)");
    crate::cover!(m.stations[0].messages[0].slot_offset == Some(4095), "t15/88 values reachable");
}

/// type 15, 110 bits (112 with byte padding): one station, one or two requests (an all-zero second request is padding)
pub fn c04_t15_110<N: Nd>(nd: &mut N) {
    use ais::messages::interrogation::Interrogation;
    let d: [u8; 14] = nd.bytes();
    let second = bits(&d, 90, 6) != 0 || bits(&d, 96, 12) != 0;
    let m = must!(Interrogation::parse(&d), "C04: a 110-bit type 15 payload must decode");
    eq!(m.mmsi, d, 8, 30, "C04 t15 mmsi");
    assert!(m.stations.len() == 1, "C04 t15/110: one station");
    eq!(m.stations[0].mmsi, d, 40, 30, "C04 t15 station 1 mmsi");
    assert!(m.stations[0].messages.len() == if second { 2 } else { 1 }, "C04 t15/110: second request reported iff present");
    eq!(m.stations[0].messages[0].message_type, d, 70, 6, "C04 t15 request 1.1 type");
    assert!(m.stations[0].messages[0].slot_offset.unwrap_or(0) as u64 == bits(&d, 76, 12), "C04 t15 request 1.1 slot offset");
    if second {
        eq!(m.stations[0].messages[1].message_type, d, 90, 6, "C04 t15 request 1.2 type");
        assert!(m.stations[0].messages[1].slot_offset.unwrap_or(0) as u64 == bits(&d, 96, 12), "C04 t15 request 1.2 slot offset");
    }
    crate::cover!(second && m.stations[0].messages[1].slot_offset == Some(1), "t15/110 two requests reachable");
    crate::cover!(!second, "t15/110 unused second request reachable");
}

/// type 15, 160 bits: two stations (first with one or two requests, second with one)
pub fn c04_t15_160<N: Nd>(nd: &mut N) {
    use ais::messages::interrogation::Interrogation;
    let d: [u8; 20] = nd.bytes();
    let second = bits(&d, 90, 6) != 0 || bits(&d, 96, 12) != 0;
    let m = must!(Interrogation::parse(&d), "C04: a 160-bit type 15 payload must decode");
    eq!(m.mmsi, d, 8, 30, "C04 t15 mmsi");
    assert!(m.stations.len() == 2, "C04 t15/160: two stations");
    eq!(m.stations[0].mmsi, d, 40, 30, "C04 t15 station 1 mmsi");
    assert!(m.stations[0].messages.len() == if second { 2 } else { 1 }, "C04 t15/160: second request of station 1 reported iff present");
    eq!(m.stations[0].messages[0].message_type, d, 70, 6, "C04 t15 request 1.1 type");
    assert!(m.stations[0].messages[0].slot_offset.unwrap_or(0) as u64 == bits(&d, 76, 12), "C04 t15 request 1.1 slot offset");
    if second {
        eq!(m.stations[0].messages[1].message_type, d, 90, 6, "C04 t15 request 1.2 type");
        assert!(m.stations[0].messages[1].slot_offset.unwrap_or(0) as u64 == bits(&d, 96, 12), "C04 t15 request 1.2 slot offset");
    }
    eq!(m.stations[1].mmsi, d, 110, 30, "C04 t15 station 2 mmsi");
    assert!(m.stations[1].messages.len() >= 1, "C04 t15/160: a request for station 2");
    eq!(m.stations[1].messages[0].message_type, d, 140, 6, "C04 t15 request 2.1 type");
    assert!(m.stations[1].messages[0].slot_offset.unwrap_or(0) as u64 == bits(&d, 146, 12), "C04 t15 request 2.1 slot offset");
    crate::cover!(second && m.stations[1].mmsi == 333_333_333, "t15/160 two requests reachable");
    crate::cover!(!second && m.stations[1].mmsi == 1, "t15/160 unused second request reachable");
}

/// type 16, 96 bits: one assignment
pub fn c04_t16_96<N: Nd>(nd: &mut N) {
    use ais::messages::assignment_mode_command::AssignmentModeCommand;
    let d: [u8; 12] = nd.bytes();
    let m = must!(AssignmentModeCommand::parse(&d), "C04: a 96-bit type 16 payload must decode");
    eq!(m.message_type, d, 0, 6, "C04 t16 message_type");
    eq!(m.repeat_indicator, d, 6, 2, "C04 t16 repeat_indicator");
    eq!(m.mmsi, d, 8, 30, "C04 t16 mmsi");
    eq!(m.mmsi1, d, 40, 30, "C04 t16 mmsi1");
    eq!(m.offset1, d, 70, 12, "C04 t16 offset1");
    eq!(m.increment1, d, 82, 10, "C04 t16 increment1");
    assert!(m.mmsi2.is_none() && m.offset2.is_none() && m.increment2.is_none(), "C04 t16/96: no second assignment");
    crate::cover!(m.increment1 == 1023, "t16/96 values reachable");
}

/// type 16, 144 bits: two assignments
pub fn c04_t16_144<N: Nd>(nd: &mut N) {
    use ais::messages::assignment_mode_command::AssignmentModeCommand;
    let d: [u8; 18] = nd.bytes();
    let m = must!(AssignmentModeCommand::parse(&d), "C04: a 144-bit type 16 payload must decode");
    eq!(m.mmsi, d, 8, 30, "C04 t16 mmsi");
    eq!(m.mmsi1, d, 40, 30, "C04 t16 mmsi1");
    eq!(m.offset1, d, 70, 12, "C04 t16 offset1");
    eq!(m.increment1, d, 82, 10, "C04 t16 increment1");
    assert!(m.mmsi2.is_some() && m.offset2.is_some() && m.increment2.is_some(), "C04 t16/144: second assignment present");
    eq!(m.mmsi2.unwrap_or(0), d, 92, 30, "C04 t16 mmsi2");
    eq!(m.offset2.unwrap_or(0), d, 122, 12, "C04 t16 offset2");
    eq!(m.increment2.unwrap_or(0), d, 134, 10, "C04 t16 increment2");
    crate::cover!(m.increment2 == Some(1023), "t16/144 values reachable");
}

/// type 17, 80-bit header + 40-bit DGNSS header + 3 data bytes
pub fn c04_t17<N: Nd>(nd: &mut N) {
    use ais::messages::dgnss_broadcast_binary_message::DgnssBroadcastBinaryMessage;
    let d: [u8; 18] = nd.bytes();
    let m = must!(DgnssBroadcastBinaryMessage::parse(&d), "C04: a type 17 payload with both headers must decode");
    eq!(m.message_type, d, 0, 6, "C04 t17 message_type");
    eq!(m.repeat_indicator, d, 6, 2, "C04 t17 repeat_indicator");
    eq!(m.mmsi, d, 8, 30, "C04 t17 mmsi");
    eq!(m.payload.message_type, d, 80, 6, "C04 t17 dgnss message type");
    eq!(m.payload.station_id, d, 86, 10, "C04 t17 station id");
    eq!(m.payload.z_count, d, 96, 13, "C04 t17 z count");
    eq!(m.payload.sequence_number, d, 109, 3, "C04 t17 sequence number");
    eq!(m.payload.n, d, 112, 5, "C04 t17 n");
    eq!(m.payload.health, d, 117, 3, "C04 t17 health");
    crate::cover!(m.payload.z_count == 8191 && m.payload.health == 7, "t17 values reachable");
}

/// type 18, 168 bits
pub fn c04_t18<N: Nd>(nd: &mut N) {
    use ais::messages::standard_class_b_position_report::StandardClassBPositionReport;
    let d: [u8; 21] = nd.bytes();
    let m = must!(StandardClassBPositionReport::parse(&d), "C04: a 168-bit type 18 payload must decode");
    eq!(m.message_type, d, 0, 6, "C04 t18 message_type");
    eq!(m.repeat_indicator, d, 6, 2, "C04 t18 repeat_indicator");
    eq!(m.mmsi, d, 8, 30, "C04 t18 mmsi");
    eq!(m.timestamp, d, 133, 6, "C04 t18 timestamp");
    flag!(m.has_display, d, 142, "C04 t18 display flag");
    flag!(m.has_dsc, d, 143, "C04 t18 dsc flag");
    flag!(m.whole_band, d, 144, "C04 t18 band flag");
    flag!(m.accepts_message_22, d, 145, "C04 t18 message 22 flag");
    flag!(m.raim, d, 147, "C04 t18 raim");
    crate::cover!(m.has_dsc && !m.whole_band && m.raim, "t18 values reachable");
}

/// type 19, 312 bits
pub fn c04_t19<N: Nd>(nd: &mut N) {
    use ais::messages::extended_class_b_position_report::ExtendedClassBPositionReport;
    let d: [u8; 39] = nd.bytes();
    let m = must!(ExtendedClassBPositionReport::parse(&d), "C04: a 312-bit type 19 payload must decode");
    eq!(m.message_type, d, 0, 6, "C04 t19 message_type");
    eq!(m.repeat_indicator, d, 6, 2, "C04 t19 repeat_indicator");
    eq!(m.mmsi, d, 8, 30, "C04 t19 mmsi");
    eq!(m.timestamp, d, 133, 6, "C04 t19 timestamp");
    eq!(m.dimension_to_bow, d, 271, 9, "C04 t19 dimension_to_bow");
    eq!(m.dimension_to_stern, d, 280, 9, "C04 t19 dimension_to_stern");
    eq!(m.dimension_to_port, d, 289, 6, "C04 t19 dimension_to_port");
    eq!(m.dimension_to_starboard, d, 295, 6, "C04 t19 dimension_to_starboard");
    flag!(m.raim, d, 305, "C04 t19 raim");
    crate::cover!(m.dimension_to_stern == 511 && m.raim, "t19 values reachable");
}

/// type 20: 40 + 30 n bits (+ padding), n = 1..4
macro_rules! dlm_harness {
    ($name:ident, $len:literal, $n:literal) => {
        pub fn $name<N: Nd>(nd: &mut N) {
            use ais::messages::data_link_management_message::DataLinkManagementMessage;
            let d: [u8; $len] = nd.bytes();
            let m = must!(DataLinkManagementMessage::parse(&d), "C04: a type 20 payload with n complete reservations must decode");
            eq!(m.message_type, d, 0, 6, "C04 t20 message_type");
            eq!(m.repeat_indicator, d, 6, 2, "C04 t20 repeat_indicator");
            eq!(m.mmsi, d, 8, 30, "C04 t20 mmsi");
            assert!(m.reservations.len() == $n, "C04 t20: number of reservations");
            let mut i = 0;
            while i < $n {
                eq!(m.reservations[i].offset, d, 40 + 30 * i, 12, "C04 t20 reservation offset");
                eq!(m.reservations[i].num_slots, d, 52 + 30 * i, 4, "C04 t20 reservation slots");
                eq!(m.reservations[i].timeout, d, 56 + 30 * i, 3, "C04 t20 reservation timeout");
                eq!(m.reservations[i].increment, d, 59 + 30 * i, 11, "C04 t20 reservation increment");
                i += 1;
            }
            crate::cover!(m.reservations[$n - 1].increment == 2047, "t20 last reservation reachable");
        }
    };
}
dlm_harness!(c04_t20_n1, 9, 1);
dlm_harness!(c04_t20_n2, 13, 2);
dlm_harness!(c04_t20_n3, 17, 3);
dlm_harness!(c04_t20_n4, 20, 4);

/// type 21, 272 bits
pub fn c04_t21<N: Nd>(nd: &mut N) {
    use ais::messages::aid_to_navigation_report::AidToNavigationReport;
    let d: [u8; 34] = nd.bytes();
    let m = must!(AidToNavigationReport::parse(&d), "C04: a 272-bit type 21 payload must decode");
    eq!(m.message_type, d, 0, 6, "C04 t21 message_type");
    eq!(m.repeat_indicator, d, 6, 2, "C04 t21 repeat_indicator");
    eq!(m.mmsi, d, 8, 30, "C04 t21 mmsi");
    eq!(m.dimension_to_bow, d, 219, 9, "C04 t21 dimension_to_bow");
    eq!(m.dimension_to_stern, d, 228, 9, "C04 t21 dimension_to_stern");
    eq!(m.dimension_to_port, d, 237, 6, "C04 t21 dimension_to_port");
    eq!(m.dimension_to_starboard, d, 243, 6, "C04 t21 dimension_to_starboard");
    eq!(m.utc_second, d, 253, 6, "C04 t21 utc_second");
    flag!(m.off_position, d, 259, "C04 t21 off_position");
    eq!(m.regional_reserved, d, 260, 8, "C04 t21 regional");
    flag!(m.raim, d, 268, "C04 t21 raim");
    flag!(m.virtual_aid, d, 269, "C04 t21 virtual_aid");
    flag!(m.assigned_mode, d, 270, "C04 t21 assigned_mode");
    crate::cover!(m.utc_second == 61 && m.virtual_aid && !m.raim, "t21 values reachable");
}

/// type 24 part A, 168 bits (160 + spare)
pub fn c04_t24a<N: Nd>(nd: &mut N) {
    use ais::messages::static_data_report::{MessagePart, StaticDataReport};
    let d: [u8; 21] = nd.bytes();
    nd.assume(bits(&d, 38, 2) == 0);
    let m = must!(StaticDataReport::parse(&d), "C04: a 168-bit type 24 part A payload must decode");
    eq!(m.message_type, d, 0, 6, "C04 t24 message_type");
    eq!(m.repeat_indicator, d, 6, 2, "C04 t24 repeat_indicator");
    eq!(m.mmsi, d, 8, 30, "C04 t24 mmsi");
    assert!(matches!(m.message_part, MessagePart::PartA { .. }), "C04 t24: part number 0 is part A");
    crate::cover!(m.mmsi == 5, "t24a values reachable");
}

/// type 24 part B, 168 bits
pub fn c04_t24b<N: Nd>(nd: &mut N) {
    use ais::messages::static_data_report::{MessagePart, StaticDataReport};
    let d: [u8; 21] = nd.bytes();
    nd.assume(bits(&d, 38, 2) == 1);
    let m = must!(StaticDataReport::parse(&d), "C04: a 168-bit type 24 part B payload must decode");
    eq!(m.message_type, d, 0, 6, "C04 t24 message_type");
    eq!(m.repeat_indicator, d, 6, 2, "C04 t24 repeat_indicator");
    eq!(m.mmsi, d, 8, 30, "C04 t24 mmsi");
    match m.message_part {
        MessagePart::PartB {
            unit_model_code,
            serial_number,
            dimension_to_bow,
            dimension_to_stern,
            dimension_to_port,
            dimension_to_starboard,
            ..
        } => {
            eq!(unit_model_code, d, 66, 4, "C04 t24b unit model code");
            eq!(serial_number, d, 70, 20, "C04 t24b serial number");
            eq!(dimension_to_bow, d, 132, 9, "C04 t24b dimension_to_bow");
            eq!(dimension_to_stern, d, 141, 9, "C04 t24b dimension_to_stern");
            eq!(dimension_to_port, d, 150, 6, "C04 t24b dimension_to_port");
            eq!(dimension_to_starboard, d, 156, 6, "C04 t24b dimension_to_starboard");
            crate::cover!(serial_number == 0xfffff && dimension_to_port == 63, "t24b values reachable");
        }
        _ => assert!(false, "C04 t24: part number 1 is part B"),
    }
}

/// type 27, 96 bits
pub fn c04_t27<N: Nd>(nd: &mut N) {
    use ais::messages::long_range_ais_broadcast::LongRangeAisBroadcastMessage;
    let d: [u8; 12] = nd.bytes();
    let m = must!(LongRangeAisBroadcastMessage::parse(&d), "C04: a 96-bit type 27 payload must decode");
    eq!(m.message_type, d, 0, 6, "C04 t27 message_type");
    eq!(m.repeat_indicator, d, 6, 2, "C04 t27 repeat_indicator");
    eq!(m.mmsi, d, 8, 30, "C04 t27 mmsi");
    flag!(m.raim, d, 39, "C04 t27 raim");
    flag!(m.gnss_position_status, d, 94, "C04 t27 gnss position status");
    crate::cover!(m.raim && m.gnss_position_status, "t27 values reachable");
}

pub mod wp {
    use super::*;
    crate::harnesses!(LP; plain; unwind 6;
        c04_t01, c04_t04, c04_t11, c04_t06, c04_t07_n1, c04_t07_n2, c04_t07_n3, c04_t07_n4,
        c04_t13_n1, c04_t13_n2, c04_t13_n3, c04_t13_n4, c04_t08, c04_t09, c04_t10,
        c04_t15_88, c04_t15_110, c04_t15_160, c04_t16_96, c04_t16_144, c04_t17, c04_t18,
        c04_t20_n1, c04_t20_n2, c04_t20_n3, c04_t20_n4, c04_t27);
}
pub mod wt {
    use super::*;
    crate::harnesses!(LT; skiptext; unwind 6; c04_t05, c04_t12, c04_t14, c04_t19, c04_t21, c04_t24a, c04_t24b);
}
