//! Source of nondeterminism: `kani::any()` under Kani, recorded concrete values natively.
//! Every harness body is an ordinary generic function over `Nd`, so the very same oracle code
//! that the solver checked is re-run natively on the solver's counter-example (replay).

pub trait Nd {
    fn u8(&mut self) -> u8;
    fn bool(&mut self) -> bool;
    fn u16(&mut self) -> u16;
    fn u32(&mut self) -> u32;
    fn i32(&mut self) -> i32;
    fn usize(&mut self) -> usize;
    fn assume(&mut self, c: bool);
    #[inline(always)]
    fn bytes<const N: usize>(&mut self) -> [u8; N] {
        let mut a = [0u8; N];
        let mut i = 0;
        while i < N {
            a[i] = self.u8();
            i += 1;
        }
        a
    }
}

#[cfg(kani)]
pub struct KaniNd;

#[cfg(kani)]
impl Nd for KaniNd {
    #[inline(always)]
    fn u8(&mut self) -> u8 {
        kani::any()
    }
    #[inline(always)]
    fn bool(&mut self) -> bool {
        kani::any()
    }
    #[inline(always)]
    fn u16(&mut self) -> u16 {
        kani::any()
    }
    #[inline(always)]
    fn u32(&mut self) -> u32 {
        kani::any()
    }
    #[inline(always)]
    fn i32(&mut self) -> i32 {
        kani::any()
    }
    #[inline(always)]
    fn usize(&mut self) -> usize {
        kani::any()
    }
    #[inline(always)]
    fn assume(&mut self, c: bool) {
        kani::assume(c)
    }
    #[inline(always)]
    fn bytes<const N: usize>(&mut self) -> [u8; N] {
        kani::any()
    }
}

/// cover!: reachability witness under Kani, no-op natively
#[macro_export]
macro_rules! cover {
    ($c:expr, $m:literal) => {{
        #[cfg(kani)]
        kani::cover!($c, $m);
        #[cfg(not(kani))]
        let _ = $c;
    }};
}

/// Declares a family of harnesses: for each `name` an ordinary generic body `fn name<N: Nd>(&mut N)`
/// must exist in scope; this generates the `#[kani::proof]` wrapper (with the stubs of the chosen
/// mode) and a registry entry for native replay.
/// modes: `plain` (fmt::format only), `skiptext` (+ parse_6bit_ascii -> bit-skipping stub),
/// `utf8` (+ core::str::from_utf8 -> ASCII-asserting stub)
#[macro_export]
macro_rules! harnesses {
    ($list:ident; plain; unwind $u:literal; $($name:ident),* $(,)?) => {
        #[cfg(kani)]
        mod kani_wrappers {
            $(
                #[kani::proof]
                #[kani::unwind($u)]
                #[cfg_attr(any(feature = "std", feature = "alloc"), kani::stub(alloc::fmt::format, $crate::stubs::fmt_stub))]
                fn $name() {
                    super::$name(&mut $crate::nd::KaniNd);
                }
            )*
        }
        $crate::harness_list!($list; $($name),*);
    };
    ($list:ident; skiptext; unwind $u:literal; $($name:ident),* $(,)?) => {
        #[cfg(kani)]
        mod kani_wrappers {
            $(
                #[kani::proof]
                #[kani::unwind($u)]
                #[cfg_attr(any(feature = "std", feature = "alloc"), kani::stub(alloc::fmt::format, $crate::stubs::fmt_stub))]
                #[kani::stub(ais::messages::parsers::parse_6bit_ascii, $crate::stubs::skip_text_stub)]
                fn $name() {
                    super::$name(&mut $crate::nd::KaniNd);
                }
            )*
        }
        $crate::harness_list!($list; $($name),*);
    };
    ($list:ident; rawtext; unwind $u:literal; $($name:ident),* $(,)?) => {
        #[cfg(kani)]
        mod kani_wrappers {
            $(
                #[kani::proof]
                #[kani::unwind($u)]
                #[cfg_attr(any(feature = "std", feature = "alloc"), kani::stub(alloc::fmt::format, $crate::stubs::fmt_stub))]
                #[kani::stub(ais::messages::parsers::parse_6bit_ascii, $crate::stubs::raw_text_stub)]
                fn $name() {
                    super::$name(&mut $crate::nd::KaniNd);
                }
            )*
        }
        $crate::harness_list!($list; $($name),*);
    };
    ($list:ident; lentext; unwind $u:literal; $($name:ident),* $(,)?) => {
        #[cfg(kani)]
        mod kani_wrappers {
            $(
                #[kani::proof]
                #[kani::unwind($u)]
                #[cfg_attr(any(feature = "std", feature = "alloc"), kani::stub(alloc::fmt::format, $crate::stubs::fmt_stub))]
                #[kani::stub(ais::messages::parsers::parse_6bit_ascii, $crate::stubs::len_text_stub)]
                fn $name() {
                    super::$name(&mut $crate::nd::KaniNd);
                }
            )*
        }
        $crate::harness_list!($list; $($name),*);
    };
    ($list:ident; utf8; unwind $u:literal; $($name:ident),* $(,)?) => {
        #[cfg(kani)]
        mod kani_wrappers {
            $(
                #[kani::proof]
                #[kani::unwind($u)]
                #[cfg_attr(any(feature = "std", feature = "alloc"), kani::stub(alloc::fmt::format, $crate::stubs::fmt_stub))]
                #[kani::stub(core::str::from_utf8, $crate::stubs::utf8_ascii_stub)]
                fn $name() {
                    super::$name(&mut $crate::nd::KaniNd);
                }
            )*
        }
        $crate::harness_list!($list; $($name),*);
    };
    ($list:ident; navstub; unwind $u:literal; $($name:ident),* $(,)?) => {
        #[cfg(kani)]
        mod kani_wrappers {
            $(
                #[kani::proof]
                #[kani::unwind($u)]
                #[cfg_attr(any(feature = "std", feature = "alloc"), kani::stub(alloc::fmt::format, $crate::stubs::fmt_stub))]
                #[kani::stub(ais::messages::navigation::parse_longitude, $crate::stubs::lon_id_stub)]
                #[kani::stub(ais::messages::navigation::parse_latitude, $crate::stubs::lat_id_stub)]
                #[kani::stub(ais::messages::navigation::parse_speed_over_ground, $crate::stubs::sog_id_stub)]
                #[kani::stub(ais::messages::navigation::parse_cog, $crate::stubs::cog_id_stub)]
                fn $name() {
                    super::$name(&mut $crate::nd::KaniNd);
                }
            )*
        }
        $crate::harness_list!($list; $($name),*);
    };
    ($list:ident; navstub_text; unwind $u:literal; $($name:ident),* $(,)?) => {
        #[cfg(kani)]
        mod kani_wrappers {
            $(
                #[kani::proof]
                #[kani::unwind($u)]
                #[cfg_attr(any(feature = "std", feature = "alloc"), kani::stub(alloc::fmt::format, $crate::stubs::fmt_stub))]
                #[kani::stub(ais::messages::parsers::parse_6bit_ascii, $crate::stubs::skip_text_stub)]
                #[kani::stub(ais::messages::navigation::parse_longitude, $crate::stubs::lon_id_stub)]
                #[kani::stub(ais::messages::navigation::parse_latitude, $crate::stubs::lat_id_stub)]
                #[kani::stub(ais::messages::navigation::parse_speed_over_ground, $crate::stubs::sog_id_stub)]
                #[kani::stub(ais::messages::navigation::parse_cog, $crate::stubs::cog_id_stub)]
                fn $name() {
                    super::$name(&mut $crate::nd::KaniNd);
                }
            )*
        }
        $crate::harness_list!($list; $($name),*);
    };
}

#[macro_export]
macro_rules! harness_list {
    ($list:ident; $($name:ident),*) => {
        /// native replay lookup (generic over the value source, so it also works in no_std builds)
        #[cfg(not(kani))]
        #[allow(non_snake_case)]
        pub fn $list<N: $crate::nd::Nd>(name: &str) -> Option<fn(&mut N)> {
            $( if name == stringify!($name) { return Some($name::<N>); } )*
            None
        }
    };
}
