//! Kani harnesses over the real `ais` crate (path dependency on /repo).
#![cfg_attr(not(feature = "std"), no_std)]
#![allow(dead_code)]
#![allow(unused_imports)]

#[cfg(any(feature = "std", feature = "alloc"))]
extern crate alloc;

pub mod nd;
pub mod spec;
pub mod stubs;

pub mod h_unarmor;
pub mod p_c01;
pub mod p_c02;
pub mod p_c04;
pub mod p_c09;
pub mod p_c12;
pub mod p_c13;
pub mod p_c14;
pub mod p_c15;
pub mod p_c16;
pub mod p_nav;

/// all harness bodies, for native replay
#[cfg(not(kani))]
pub fn lookup<N: nd::Nd>(name: &str) -> Option<fn(&mut N)> {
    None.or_else(|| h_unarmor::w12::L12::<N>(name))
        .or_else(|| h_unarmor::w16::L16::<N>(name))
        .or_else(|| h_unarmor::w40::L40::<N>(name))
        .or_else(|| p_c04::wp::LP::<N>(name))
        .or_else(|| p_c04::wt::LT::<N>(name))
        .or_else(|| p_c09::wp::LP::<N>(name))
        .or_else(|| p_c09::wt::LT::<N>(name))
        .or_else(|| p_c12::wp::LP::<N>(name))
        .or_else(|| p_c12::wt::LT::<N>(name))
        .or_else(|| p_c16::wp::LP::<N>(name))
        .or_else(|| p_c02::w96::L96::<N>(name))
        .or_else(|| p_c02::w400::L400::<N>(name))
        .or_else(|| p_c01::wfp::LFP::<N>(name))
        .or_else(|| p_c01::wft::LFT::<N>(name))
        .or_else(|| p_c01::wtx::LTX::<N>(name))
        .or_else(|| p_c01::wtx4::LTX4::<N>(name))
        .or_else(|| p_c13::w8::L8::<N>(name))
        .or_else(|| p_c13::w20::L20::<N>(name))
        .or_else(|| p_c13::wr::LR::<N>(name))
        .or_else(|| p_c13::ww::LW::<N>(name))
        .or_else(|| p_c13::ww5::LW5::<N>(name))
        .or_else(|| p_c15::ws::LS::<N>(name))
        .or_else(|| p_c15::wl::LL::<N>(name))
        .or_else(|| p_c14::wp::LP::<N>(name))
        .or_else(|| p_c14::wt::LT::<N>(name))
        .or_else(|| p_nav::wp::LP::<N>(name))
        .or_else(|| p_nav::wt::LT::<N>(name))
        .or_else(|| p_nav::wn::LN::<N>(name))
        .or_else(|| p_nav::wnt::LNT::<N>(name))
}
