//! Native replay of a solver counter-example: `replay <harness> <file>` where the file holds one
//! line per `kani::any()` value (comma separated little-endian bytes), in the order Kani's
//! concrete playback lists them.  Exit 0: harness body ran to the end (no violation reproduced);
//! exit 10: a panic / failed assertion reproduced (message on stdout); exit 11: an assumption of
//! the harness was violated by the values (not a valid counter-example); exit 12: usage.
#[cfg(kani)]
fn main() {}

#[cfg(not(kani))]
mod native {
    use ais_verif_kani::nd::Nd;

    pub struct AssumptionViolated;

    pub struct ReplayNd {
        pub vals: Vec<Vec<u8>>,
        pub pos: usize,
    }

    impl ReplayNd {
        fn next(&mut self) -> u64 {
            let v = if self.pos < self.vals.len() { self.vals[self.pos].clone() } else { vec![0u8; 8] };
            self.pos += 1;
            let mut x: u64 = 0;
            for (i, b) in v.iter().enumerate().take(8) {
                x |= (*b as u64) << (8 * i);
            }
            x
        }
    }

    impl Nd for ReplayNd {
        fn u8(&mut self) -> u8 {
            self.next() as u8
        }
        fn bool(&mut self) -> bool {
            self.next() & 1 == 1
        }
        fn u16(&mut self) -> u16 {
            self.next() as u16
        }
        fn u32(&mut self) -> u32 {
            self.next() as u32
        }
        fn i32(&mut self) -> i32 {
            self.next() as u32 as i32
        }
        fn usize(&mut self) -> usize {
            self.next() as usize
        }
        fn assume(&mut self, c: bool) {
            if !c {
                std::panic::panic_any(AssumptionViolated);
            }
        }
    }

    pub fn main() {
        let args: Vec<String> = std::env::args().collect();
        if args.len() != 3 {
            eprintln!("usage: replay <harness> <values-file>");
            std::process::exit(12);
        }
        let text = std::fs::read_to_string(&args[2]).expect("values file");
        let mut vals = Vec::new();
        for line in text.lines() {
            let line = line.trim();
            if line.is_empty() || line.starts_with('#') {
                continue;
            }
            let v: Vec<u8> = line
                .split(',')
                .filter(|s| !s.trim().is_empty())
                .map(|s| s.trim().parse::<u8>().expect("byte"))
                .collect();
            vals.push(v);
        }
        let f = match ais_verif_kani::lookup::<ReplayNd>(&args[1]) {
            Some(f) => f,
            None => {
                eprintln!("unknown harness {}", args[1]);
                std::process::exit(12);
            }
        };
        let r = std::panic::catch_unwind(move || {
            let mut nd = ReplayNd { vals, pos: 0 };
            f(&mut nd);
        });
        match r {
            Ok(()) => {
                println!("REPLAY-OK: harness body completed without violation");
                std::process::exit(0);
            }
            Err(e) => {
                if e.downcast_ref::<AssumptionViolated>().is_some() {
                    println!("REPLAY-INVALID: assumption violated");
                    std::process::exit(11);
                }
                let msg = if let Some(s) = e.downcast_ref::<&str>() {
                    s.to_string()
                } else if let Some(s) = e.downcast_ref::<String>() {
                    s.clone()
                } else {
                    "panic".to_string()
                };
                println!("REPLAY-REPRODUCED: {}", msg);
                std::process::exit(10);
            }
        }
    }
}

#[cfg(not(kani))]
fn main() {
    native::main()
}
