//! Native driver for engine M: feeds a script of lines to real `AisParser`s and prints what came back.
//! Script: `N` = start a new parser; `L <decode 0|1> <hex bytes of the line>`.
//! Output, one line per `L`: `C|I <nf> <fn> <id|-> <fill> <msgtype> <message 0|1> <data hex> <msgdbg-hash>` |
//! (followed by the decoded variant name, the channel as a code point or `-`, talker id and report type) |
//! `E nmea` | `E checksum <expected> <found>` | `P <panic message>`.
//! `U <fill> <hex bytes>` calls `ais::messages::unarmor` directly and prints `O <hex result>` | `E nmea` | `P <panic message>`.
#[cfg(kani)]
fn main() {}

#[cfg(not(kani))]
fn hex(b: &[u8]) -> String {
    let mut s = String::new();
    for x in b {
        s.push_str(&format!("{:02x}", x));
    }
    if s.is_empty() {
        s.push('-');
    }
    s
}

#[cfg(not(kani))]
fn unhex(s: &str) -> Vec<u8> {
    if s == "-" {
        return Vec::new();
    }
    (0..s.len() / 2).map(|i| u8::from_str_radix(&s[2 * i..2 * i + 2], 16).unwrap()).collect()
}

#[cfg(not(kani))]
fn main() {
    use ais::sentence::{AisFragments, AisParser};
    use std::collections::hash_map::DefaultHasher;
    use std::hash::{Hash, Hasher};
    std::panic::set_hook(Box::new(|_| {}));
    let path = std::env::args().nth(1).expect("script file");
    let text = std::fs::read_to_string(path).expect("script");
    let mut parser = AisParser::new();
    for l in text.lines() {
        let l = l.trim();
        if l.is_empty() {
            continue;
        }
        if l == "N" {
            parser = AisParser::new();
            continue;
        }
        let mut it = l.split_whitespace();
        let cmd = it.next();
        if cmd == Some("U") {
            let fill: usize = it.next().unwrap().parse().unwrap();
            let data = unhex(it.next().unwrap_or("-"));
            let r = std::panic::catch_unwind(|| ais::messages::unarmor(&data, fill));
            match r {
                Err(e) => {
                    let msg = if let Some(s) = e.downcast_ref::<&str>() {
                        s.to_string()
                    } else if let Some(s) = e.downcast_ref::<String>() {
                        s.clone()
                    } else {
                        "panic".to_string()
                    };
                    println!("P {}", msg.replace('\n', " "));
                }
                Ok(Err(_)) => println!("E nmea"),
                Ok(Ok(v)) => println!("O {}", hex(&v)),
            }
            continue;
        }
        let decode = it.next().unwrap() == "1";
        let line = unhex(it.next().unwrap_or("-"));
        let r = std::panic::catch_unwind(std::panic::AssertUnwindSafe(|| parser.parse(&line, decode)));
        match r {
            Err(e) => {
                let msg = if let Some(s) = e.downcast_ref::<&str>() {
                    s.to_string()
                } else if let Some(s) = e.downcast_ref::<String>() {
                    s.clone()
                } else {
                    "panic".to_string()
                };
                println!("P {}", msg.replace('\n', " "));
                // the parser may be in any state after a panic: start over
                parser = AisParser::new();
            }
            Ok(Err(ais::errors::Error::Checksum { expected, found })) => println!("E checksum {} {}", expected, found),
            Ok(Err(_)) => println!("E nmea"),
            Ok(Ok(fr)) => {
                let (tag, s) = match &fr {
                    AisFragments::Complete(s) => ("C", s),
                    AisFragments::Incomplete(s) => ("I", s),
                };
                let id = match s.message_id {
                    Some(x) => format!("{}", x),
                    None => "-".to_string(),
                };
                let mut h = DefaultHasher::new();
                let dbg = format!("{:?}", s.message);
                dbg.hash(&mut h);
                // variant name of the decoded message: Some(Variant(..
                let variant = match dbg.strip_prefix("Some(") {
                    Some(rest) => rest.split('(').next().unwrap_or("?").to_string(),
                    None => "-".to_string(),
                };
                let ch = match s.channel {
                    Some(c) => format!("{}", c as u32),
                    None => "-".to_string(),
                };
                println!(
                    "{} {} {} {} {} {} {} {} {:016x} {} {} {:?} {:?}",
                    tag,
                    s.num_fragments,
                    s.fragment_number,
                    id,
                    s.fill_bit_count,
                    s.message_type,
                    if s.message.is_some() { 1 } else { 0 },
                    hex(&s.data),
                    h.finish(),
                    variant,
                    ch,
                    s.talker_id,
                    s.report_type
                );
            }
        }
    }
}
