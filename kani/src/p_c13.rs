//! C13: text fields are the 6-bit ASCII decoding of their bit range with leading spaces, then trailing
//! '@' padding, then trailing spaces removed.  Through the real message parsers; `core::str::from_utf8`
//! is replaced by the ASCII-asserting stub (its assertion *is* the "always valid ASCII" clause).
use crate::nd::Nd;
use crate::p_c04::must;
use crate::spec::*;
use ais::messages::AisMessageType;

/// reference character i of a text field starting at bit `off`
#[inline(always)]
fn ch(d: &[u8], off: usize, i: usize) -> u8 {
    let c = bits(d, off + 6 * i, 6) as u8;
    if c < 32 {
        c + 64
    } else {
        c
    }
}

/// decoded text == reference decode + trim of the k characters at `off`
#[inline(always)]
pub fn text_ok(d: &[u8], off: usize, k: usize, s: &str) -> bool {
    let out = s.as_bytes();
    let mut start = 0;
    while start < k && ch(d, off, start) == b' ' {
        start += 1;
    }
    let mut end = k;
    while end > start && ch(d, off, end - 1) == b'@' {
        end -= 1;
    }
    while end > start && ch(d, off, end - 1) == b' ' {
        end -= 1;
    }
    if out.len() != end - start || out.len() > k {
        return false;
    }
    let mut i = 0;
    let mut ok = true;
    while i < k {
        if i < out.len() {
            let b = out[i];
            if b != ch(d, off, start + i) || b < 0x20 || b > 0x5f {
                ok = false;
            }
        }
        i += 1;
    }
    ok
}

/// type 24 part B: vendor id (3 characters), model/serial overlay (4), call sign (7)
pub fn c13_t24b<N: Nd>(nd: &mut N) {
    use ais::messages::static_data_report::{MessagePart, StaticDataReport};
    let d: [u8; 21] = nd.bytes();
    nd.assume(bits(&d, 38, 2) == 1);
    let m = must!(StaticDataReport::parse(&d), "a 168-bit type 24 part B payload must decode");
    match &m.message_part {
        MessagePart::PartB { vendor_id, model_serial, callsign, dimension_to_bow, .. } => {
            assert!(text_ok(&d, 48, 3, vendor_id), "C13 t24b vendor id");
            assert!(text_ok(&d, 66, 4, model_serial), "C13 t24b model/serial text");
            assert!(text_ok(&d, 90, 7, callsign), "C13 t24b call sign");
            // a field located after the texts: the real text parser consumed exactly its bit range
            assert!(*dimension_to_bow as u64 == bits(&d, 132, 9), "C13 t24b field after the texts");
            crate::cover!(callsign.len() == 7 && vendor_id.len() == 0, "t24b full call sign and empty vendor id reachable");
            crate::cover!(callsign.len() == 3 && ch(&d, 90, 0) == b' ' && ch(&d, 90, 6) == b'@', "t24b trimmed call sign reachable");
        }
        _ => assert!(false, "part number 1 is part B"),
    }
}

/// safety-related broadcast text, k characters (payload length concrete)
macro_rules! t14 {
    ($name:ident, $len:literal) => {
        pub fn $name<N: Nd>(nd: &mut N) {
            use ais::messages::safety_related_broadcast::SafetyRelatedBroadcastMessage;
            let d: [u8; $len] = nd.bytes();
            let k: usize = (8 * $len - 40) / 6;
            let m = must!(SafetyRelatedBroadcastMessage::parse(&d), "a type 14 payload with text must decode");
            assert!(text_ok(&d, 40, k, &m.text), "C13 t14 safety text");
            crate::cover!(m.text.len() == k, "t14 untrimmed text reachable");
            crate::cover!(m.text.len() == 0, "t14 all-padding text reachable");
        }
    };
}
t14!(c13_t14_k01, 6);
t14!(c13_t14_k02, 7);
t14!(c13_t14_k04, 8);
t14!(c13_t14_k05, 9);
t14!(c13_t14_k06, 10);
t14!(c13_t14_k08, 11);
t14!(c13_t14_k12, 14);
t14!(c13_t14_k16, 17);
t14!(c13_t14_k20, 20);

macro_rules! t12 {
    ($name:ident, $len:literal) => {
        pub fn $name<N: Nd>(nd: &mut N) {
            use ais::messages::addressed_safety_related::AddressedSafetyRelatedMessage;
            let d: [u8; $len] = nd.bytes();
            let k: usize = (8 * $len - 72) / 6;
            let m = must!(AddressedSafetyRelatedMessage::parse(&d), "a type 12 payload with text must decode");
            assert!(text_ok(&d, 72, k, &m.text), "C13 t12 safety text");
            crate::cover!(m.text.len() == k, "t12 untrimmed text reachable");
        }
    };
}
t12!(c13_t12_k01, 10);
t12!(c13_t12_k04, 12);
t12!(c13_t12_k08, 15);
t12!(c13_t12_k20, 24);

/// 20-character fields (thorough tier)
pub fn c13_t24a<N: Nd>(nd: &mut N) {
    use ais::messages::static_data_report::{MessagePart, StaticDataReport};
    let d: [u8; 20] = nd.bytes();
    nd.assume(bits(&d, 38, 2) == 0);
    let m = must!(StaticDataReport::parse(&d), "a 160-bit type 24 part A payload must decode");
    match &m.message_part {
        MessagePart::PartA { vessel_name } => {
            assert!(text_ok(&d, 40, 20, vessel_name), "C13 t24a vessel name");
            crate::cover!(vessel_name.len() == 20, "t24a full name reachable");
        }
        _ => assert!(false, "part number 0 is part A"),
    }
}
pub fn c13_t19<N: Nd>(nd: &mut N) {
    use ais::messages::extended_class_b_position_report::ExtendedClassBPositionReport;
    let d: [u8; 39] = nd.bytes();
    let m = must!(ExtendedClassBPositionReport::parse(&d), "a 312-bit type 19 payload must decode");
    assert!(text_ok(&d, 143, 20, &m.name), "C13 t19 name");
    assert!(m.dimension_to_bow as u64 == bits(&d, 271, 9), "C13 t19 field after the text");
    crate::cover!(m.name.len() == 20, "t19 full name reachable");
}
pub fn c13_t21<N: Nd>(nd: &mut N) {
    use ais::messages::aid_to_navigation_report::AidToNavigationReport;
    let d: [u8; 34] = nd.bytes();
    let m = must!(AidToNavigationReport::parse(&d), "a 272-bit type 21 payload must decode");
    assert!(text_ok(&d, 43, 20, &m.name), "C13 t21 name");
    assert!(m.dimension_to_bow as u64 == bits(&d, 219, 9), "C13 t21 field after the text");
    crate::cover!(m.name.len() == 20, "t21 full name reachable");
}
pub fn c13_t05<N: Nd>(nd: &mut N) {
    use ais::messages::static_and_voyage_related_data::StaticAndVoyageRelatedData;
    let d: [u8; 53] = nd.bytes();
    let m = must!(StaticAndVoyageRelatedData::parse(&d), "a 424-bit type 5 payload must decode");
    assert!(text_ok(&d, 70, 7, &m.callsign), "C13 t5 call sign");
    assert!(text_ok(&d, 112, 20, &m.vessel_name), "C13 t5 vessel name");
    assert!(text_ok(&d, 302, 20, &m.destination), "C13 t5 destination");
    assert!(m.dimension_to_bow as u64 == bits(&d, 240, 9), "C13 t5 field between the texts");
    crate::cover!(m.destination.len() == 20, "t5 full destination reachable");
}
/// type 5 truncated: destination with 9 characters (45 bytes)
pub fn c13_t05_trunc<N: Nd>(nd: &mut N) {
    use ais::messages::static_and_voyage_related_data::StaticAndVoyageRelatedData;
    let d: [u8; 45] = nd.bytes();
    let m = must!(StaticAndVoyageRelatedData::parse(&d), "a truncated type 5 payload must decode");
    assert!(text_ok(&d, 302, 9, &m.destination), "C13 t5 truncated destination");
    crate::cover!(m.destination.len() == 9, "t5 nine-character destination reachable");
}

// ---- which bits reach the text decoder (fixed-width fields of 20 / 7 / 4 / 3 characters): the decoder is replaced by
// raw_text_stub (character i = 0x21 + 6-bit value i of the range), so that the whole payload can stay symbolic; natively the
// real decoder runs and the same field is compared with the reference decode + trim of the same range.
#[inline(always)]
fn wired(d: &[u8], off: usize, k: usize, s: &str) -> bool {
    #[cfg(kani)]
    {
        let out = s.as_bytes();
        if out.len() != k {
            return false;
        }
        let mut i = 0;
        let mut ok = true;
        while i < k {
            if out[i] != 0x21 + bits(d, off + 6 * i, 6) as u8 {
                ok = false;
            }
            i += 1;
        }
        ok
    }
    #[cfg(not(kani))]
    {
        text_ok(d, off, k, s)
    }
}

/// no character of the range is '@' (0) or ' ' (32): then nothing is trimmed, so that a counter-example of a wiring harness shows
/// natively (through the real decoder) as well - the message parsers do not branch on text content, so nothing else is lost
#[inline(always)]
fn unpadded(d: &[u8], off: usize, k: usize) -> bool {
    let mut i = 0;
    let mut ok = true;
    while i < k {
        let v = bits(d, off + 6 * i, 6);
        if v == 0 || v == 32 {
            ok = false;
        }
        i += 1;
    }
    ok
}

pub fn c13r_t24a<N: Nd>(nd: &mut N) {
    use ais::messages::static_data_report::{MessagePart, StaticDataReport};
    let d: [u8; 20] = nd.bytes();
    nd.assume(bits(&d, 38, 2) == 0);
    nd.assume(unpadded(&d, 40, 20));
    let m = must!(StaticDataReport::parse(&d), "a 160-bit type 24 part A payload must decode");
    match &m.message_part {
        MessagePart::PartA { vessel_name } => {
            assert!(wired(&d, 40, 20, vessel_name), "C13 t24a vessel name = the 20 characters at bit 40");
            crate::cover!(d[5] == 0x12, "t24a harness end reachable");
        }
        _ => assert!(false, "part number 0 is part A"),
    }
}
pub fn c13r_t24b<N: Nd>(nd: &mut N) {
    use ais::messages::static_data_report::{MessagePart, StaticDataReport};
    let d: [u8; 21] = nd.bytes();
    nd.assume(bits(&d, 38, 2) == 1);
    nd.assume(unpadded(&d, 48, 3) && unpadded(&d, 66, 4) && unpadded(&d, 90, 7));
    let m = must!(StaticDataReport::parse(&d), "a 168-bit type 24 part B payload must decode");
    match &m.message_part {
        MessagePart::PartB { vendor_id, model_serial, callsign, dimension_to_bow, .. } => {
            assert!(wired(&d, 48, 3, vendor_id), "C13 t24b vendor id = the 3 characters at bit 48");
            assert!(wired(&d, 66, 4, model_serial), "C13 t24b model/serial text = the 4 characters at bit 66");
            assert!(wired(&d, 90, 7, callsign), "C13 t24b call sign = the 7 characters at bit 90");
            assert!(*dimension_to_bow as u64 == bits(&d, 132, 9), "C13 t24b field after the texts");
            crate::cover!(d[7] == 0x34, "t24b harness end reachable");
        }
        _ => assert!(false, "part number 1 is part B"),
    }
}
pub fn c13r_t19<N: Nd>(nd: &mut N) {
    use ais::messages::extended_class_b_position_report::ExtendedClassBPositionReport;
    let d: [u8; 39] = nd.bytes();
    nd.assume(unpadded(&d, 143, 20));
    let m = must!(ExtendedClassBPositionReport::parse(&d), "a 312-bit type 19 payload must decode");
    assert!(wired(&d, 143, 20, &m.name), "C13 t19 name = the 20 characters at bit 143");
    assert!(m.dimension_to_bow as u64 == bits(&d, 271, 9), "C13 t19 field after the text");
    crate::cover!(d[20] == 0x56, "t19 harness end reachable");
}
pub fn c13r_t21<N: Nd>(nd: &mut N) {
    use ais::messages::aid_to_navigation_report::AidToNavigationReport;
    let d: [u8; 34] = nd.bytes();
    nd.assume(unpadded(&d, 43, 20));
    let m = must!(AidToNavigationReport::parse(&d), "a 272-bit type 21 payload must decode");
    assert!(wired(&d, 43, 20, &m.name), "C13 t21 name = the 20 characters at bit 43");
    assert!(m.dimension_to_bow as u64 == bits(&d, 219, 9), "C13 t21 field after the text");
    crate::cover!(d[10] == 0x78, "t21 harness end reachable");
}
pub fn c13r_t05<N: Nd>(nd: &mut N) {
    use ais::messages::static_and_voyage_related_data::StaticAndVoyageRelatedData;
    let d: [u8; 53] = nd.bytes();
    nd.assume(unpadded(&d, 70, 7) && unpadded(&d, 112, 20) && unpadded(&d, 302, 20));
    let m = must!(StaticAndVoyageRelatedData::parse(&d), "a 424-bit type 5 payload must decode");
    assert!(wired(&d, 70, 7, &m.callsign), "C13 t5 call sign = the 7 characters at bit 70");
    assert!(wired(&d, 112, 20, &m.vessel_name), "C13 t5 vessel name = the 20 characters at bit 112");
    assert!(wired(&d, 302, 20, &m.destination), "C13 t5 destination = the 20 characters at bit 302");
    assert!(m.dimension_to_bow as u64 == bits(&d, 240, 9), "C13 t5 field between the texts");
    crate::cover!(d[30] == 0x9a, "t5 harness end reachable");
}
pub fn c13r_t05_trunc<N: Nd>(nd: &mut N) {
    use ais::messages::static_and_voyage_related_data::StaticAndVoyageRelatedData;
    let d: [u8; 45] = nd.bytes();
    nd.assume(unpadded(&d, 302, 9));
    let m = must!(StaticAndVoyageRelatedData::parse(&d), "a truncated type 5 payload must decode");
    assert!(wired(&d, 302, 9, &m.destination), "C13 t5 truncated destination = the 9 characters at bit 302");
    crate::cover!(d[40] == 0xbc, "t5 truncated harness end reachable");
}

pub mod wr {
    use super::*;
    crate::harnesses!(LR; rawtext; unwind 23; c13r_t24a, c13r_t24b, c13r_t19, c13r_t21, c13r_t05, c13r_t05_trunc);
}
pub mod w8 {
    use super::*;
    crate::harnesses!(L8; utf8; unwind 10; c13_t24b, c13_t14_k01, c13_t14_k02, c13_t14_k04, c13_t14_k05, c13_t14_k06, c13_t14_k08,
        c13_t12_k01, c13_t12_k04, c13_t12_k08);
}
pub mod w20 {
    use super::*;
    crate::harnesses!(L20; utf8; unwind 22; c13_t14_k12, c13_t14_k16, c13_t14_k20, c13_t12_k20, c13_t24a, c13_t19, c13_t21, c13_t05, c13_t05_trunc);
}


// ---- range wiring of the variable-length texts (types 12, 14; destination of type 5) for every payload length up to the
// 1008-bit maximum: the number of characters handed to / produced by the text decoder is floor(bits available / 6), capped by
// the field width.  Payload bits all ones: every 6-bit group is '?', which no trimming removes, so that the decoded length is
// the character count of the range - under Kani through len_text_stub, natively through the real decoder.
fn expect_text_len(len: usize, k: usize, what: &str) {
    assert!(len == k, "C13 {}: the text covers exactly the characters of its bit range", what);
}

fn c13w_t12_at(n: usize) {
    use ais::messages::addressed_safety_related::AddressedSafetyRelatedMessage;
    let buf = [0xffu8; 126];
    let d = &buf[..n];
    let k = if 8 * n >= 72 { (8 * n - 72) / 6 } else { 0 };
    match AddressedSafetyRelatedMessage::parse(d) {
        Ok(m) => {
            assert!(k >= 1, "C13 t12: no text character, nothing to decode");
            expect_text_len(m.text.len(), k, "t12");
        }
        Err(_) => {
            #[cfg(any(feature = "std", feature = "alloc"))]
            assert!(k < 1, "C13 t12: a payload with at least one text character decodes");
            #[cfg(all(not(feature = "std"), not(feature = "alloc")))]
            assert!(k < 1 || k > 20, "C13 t12: a text within the capacity decodes");
        }
    }
    crate::cover!(n > 0, "the end of the harness is reached");
}

fn c13w_t14_at(n: usize) {
    use ais::messages::safety_related_broadcast::SafetyRelatedBroadcastMessage;
    let buf = [0xffu8; 126];
    let d = &buf[..n];
    let k = if 8 * n >= 40 { (8 * n - 40) / 6 } else { 0 };
    match SafetyRelatedBroadcastMessage::parse(d) {
        Ok(m) => {
            assert!(k >= 1, "C13 t14: no text character, nothing to decode");
            expect_text_len(m.text.len(), k, "t14");
        }
        Err(_) => {
            #[cfg(any(feature = "std", feature = "alloc"))]
            assert!(k < 1, "C13 t14: a payload with at least one text character decodes");
            #[cfg(all(not(feature = "std"), not(feature = "alloc")))]
            assert!(k < 1 || k > 20, "C13 t14: a text within the capacity decodes");
        }
    }
    crate::cover!(n > 0, "the end of the harness is reached");
}

/// concrete payload lengths (the length decides the character count): the 1008-bit maximum and the two lengths below it (one per
/// alignment of the last character), a mid-size text, and the lengths around the no-allocator capacity of 20 characters
pub fn c13w_t12_n126<N: Nd>(_nd: &mut N) { c13w_t12_at(126) }
pub fn c13w_t12_n125<N: Nd>(_nd: &mut N) { c13w_t12_at(125) }
pub fn c13w_t12_n124<N: Nd>(_nd: &mut N) { c13w_t12_at(124) }
pub fn c13w_t12_n066<N: Nd>(_nd: &mut N) { c13w_t12_at(66) }
pub fn c13w_t12_n024<N: Nd>(_nd: &mut N) { c13w_t12_at(24) }
pub fn c13w_t12_n025<N: Nd>(_nd: &mut N) { c13w_t12_at(25) }
pub fn c13w_t14_n126<N: Nd>(_nd: &mut N) { c13w_t14_at(126) }
pub fn c13w_t14_n125<N: Nd>(_nd: &mut N) { c13w_t14_at(125) }
pub fn c13w_t14_n124<N: Nd>(_nd: &mut N) { c13w_t14_at(124) }
pub fn c13w_t14_n066<N: Nd>(_nd: &mut N) { c13w_t14_at(66) }
pub fn c13w_t14_n020<N: Nd>(_nd: &mut N) { c13w_t14_at(20) }
pub fn c13w_t14_n021<N: Nd>(_nd: &mut N) { c13w_t14_at(21) }

fn c13w_t05_at(n: usize) {
    use ais::messages::static_and_voyage_related_data::StaticAndVoyageRelatedData;
    let buf = [0xffu8; 55];
    let d = &buf[..n];
    match StaticAndVoyageRelatedData::parse(d) {
        Err(_) => assert!(n < 38, "C13 t5: a payload holding everything up to the draught decodes"),
        Ok(m) => {
            assert!(n >= 38, "C13 t5: a payload cut before the destination is rejected");
            let rest = 8 * n - 302;
            let k = (if rest > 120 { 120 } else { rest }) / 6;
            expect_text_len(m.callsign.len(), 7, "t5 call sign");
            expect_text_len(m.vessel_name.len(), 20, "t5 vessel name");
            expect_text_len(m.destination.len(), k, "t5 destination");
        }
    }
    crate::cover!(n > 0, "the end of the harness is reached");
}
/// the truncated destination of type 5: every payload length at which the payload ends exactly on a character boundary
/// (40, 43, 46, 49, 52), their neighbours, the shortest accepted length and the full length
pub fn c13w_t05_n037<N: Nd>(_nd: &mut N) { c13w_t05_at(37) }
pub fn c13w_t05_n038<N: Nd>(_nd: &mut N) { c13w_t05_at(38) }
pub fn c13w_t05_n040<N: Nd>(_nd: &mut N) { c13w_t05_at(40) }
pub fn c13w_t05_n041<N: Nd>(_nd: &mut N) { c13w_t05_at(41) }
pub fn c13w_t05_n043<N: Nd>(_nd: &mut N) { c13w_t05_at(43) }
pub fn c13w_t05_n046<N: Nd>(_nd: &mut N) { c13w_t05_at(46) }
pub fn c13w_t05_n049<N: Nd>(_nd: &mut N) { c13w_t05_at(49) }
pub fn c13w_t05_n052<N: Nd>(_nd: &mut N) { c13w_t05_at(52) }
pub fn c13w_t05_n053<N: Nd>(_nd: &mut N) { c13w_t05_at(53) }
pub fn c13w_t05_n055<N: Nd>(_nd: &mut N) { c13w_t05_at(55) }

pub mod ww {
    use super::*;
    crate::harnesses!(LW; lentext; unwind 163; c13w_t12_n126, c13w_t12_n125, c13w_t12_n124, c13w_t12_n066, c13w_t12_n024, c13w_t12_n025,
        c13w_t14_n126, c13w_t14_n125, c13w_t14_n124, c13w_t14_n066, c13w_t14_n020, c13w_t14_n021);
}
pub mod ww5 {
    use super::*;
    crate::harnesses!(LW5; lentext; unwind 23; c13w_t05_n037, c13w_t05_n038, c13w_t05_n040, c13w_t05_n041, c13w_t05_n043, c13w_t05_n046,
        c13w_t05_n049, c13w_t05_n052, c13w_t05_n053, c13w_t05_n055);
}
