//! C13: text fields are the 6-bit ASCII decoding of their bit range with leading spaces, then trailing
//! '@' padding, then trailing spaces removed.  Through the real message parsers; `core::str::from_utf8`
//! is replaced by the ASCII-asserting stub (its assertion *is* the "always valid ASCII" clause).
use crate::nd::Nd;
use crate::p_c04::must;
use crate::spec::*;
use ais::messages::AisMessageType;

/// reference character i of a text field starting at bit `off`
#[inline(always)]
fn ch(d: &[u8], off: usize, i: usize) -> u8 {
    let c = bits(d, off + 6 * i, 6) as u8;
    if c < 32 {
        c + 64
    } else {
        c
    }
}

/// decoded text == reference decode + trim of the k characters at `off`
#[inline(always)]
pub fn text_ok(d: &[u8], off: usize, k: usize, s: &str) -> bool {
    let out = s.as_bytes();
    let mut start = 0;
    while start < k && ch(d, off, start) == b' ' {
        start += 1;
    }
    let mut end = k;
    while end > start && ch(d, off, end - 1) == b'@' {
        end -= 1;
    }
    while end > start && ch(d, off, end - 1) == b' ' {
        end -= 1;
    }
    if out.len() != end - start || out.len() > k {
        return false;
    }
    let mut i = 0;
    let mut ok = true;
    while i < k {
        if i < out.len() {
            let b = out[i];
            if b != ch(d, off, start + i) || b < 0x20 || b > 0x5f {
                ok = false;
            }
        }
        i += 1;
    }
    ok
}

/// type 24 part B: vendor id (3 characters), model/serial overlay (4), call sign (7)
pub fn c13_t24b<N: Nd>(nd: &mut N) {
    use ais::messages::static_data_report::{MessagePart, StaticDataReport};
    let d: [u8; 21] = nd.bytes();
    nd.assume(bits(&d, 38, 2) == 1);
    let m = must!(StaticDataReport::parse(&d), "a 168-bit type 24 part B payload must decode");
    match &m.message_part {
        MessagePart::PartB { vendor_id, model_serial, callsign, dimension_to_bow, .. } => {
            assert!(text_ok(&d, 48, 3, vendor_id), "C13 t24b vendor id");
            assert!(text_ok(&d, 66, 4, model_serial), "C13 t24b model/serial text");
            assert!(text_ok(&d, 90, 7, callsign), "C13 t24b call sign");
            // a field located after the texts: the real text parser consumed exactly its bit range
            assert!(*dimension_to_bow as u64 == bits(&d, 132, 9), "C13 t24b field after the texts");
            crate::cover!(callsign.len() == 7 && vendor_id.len() == 0, "t24b full call sign and empty vendor id reachable");
            crate::cover!(callsign.len() == 3 && ch(&d, 90, 0) == b' ' && ch(&d, 90, 6) == b'@', "t24b trimmed call sign reachable");
        }
        _ => assert!(false, "part number 1 is part B"),
    }
}

/// safety-related broadcast text, k characters (payload length concrete)
macro_rules! t14 {
    ($name:ident, $len:literal) => {
        pub fn $name<N: Nd>(nd: &mut N) {
            use ais::messages::safety_related_broadcast::SafetyRelatedBroadcastMessage;
            let d: [u8; $len] = nd.bytes();
            let k: usize = (8 * $len - 40) / 6;
            let m = must!(SafetyRelatedBroadcastMessage::parse(&d), "a type 14 payload with text must decode");
            assert!(text_ok(&d, 40, k, &m.text), "C13 t14 safety text");
            crate::cover!(m.text.len() == k, "t14 untrimmed text reachable");
            crate::cover!(m.text.len() == 0, "t14 all-padding text reachable");
        }
    };
}
t14!(c13_t14_k01, 6);
t14!(c13_t14_k02, 7);
t14!(c13_t14_k04, 8);
t14!(c13_t14_k05, 9);
t14!(c13_t14_k06, 10);
t14!(c13_t14_k08, 11);
t14!(c13_t14_k12, 14);
t14!(c13_t14_k16, 17);
t14!(c13_t14_k20, 20);

macro_rules! t12 {
    ($name:ident, $len:literal) => {
        pub fn $name<N: Nd>(nd: &mut N) {
            use ais::messages::addressed_safety_related::AddressedSafetyRelatedMessage;
            let d: [u8; $len] = nd.bytes();
            let k: usize = (8 * $len - 72) / 6;
            let m = must!(AddressedSafetyRelatedMessage::parse(&d), "a type 12 payload with text must decode");
            assert!(text_ok(&d, 72, k, &m.text), "C13 t12 safety text");
            crate::cover!(m.text.len() == k, "t12 untrimmed text reachable");
        }
    };
}
t12!(c13_t12_k01, 10);
t12!(c13_t12_k04, 12);
t12!(c13_t12_k08, 15);
t12!(c13_t12_k20, 24);

/// 20-character fields (thorough tier)
pub fn c13_t24a<N: Nd>(nd: &mut N) {
    use ais::messages::static_data_report::{MessagePart, StaticDataReport};
    let d: [u8; 20] = nd.bytes();
    nd.assume(bits(&d, 38, 2) == 0);
    let m = must!(StaticDataReport::parse(&d), "a 160-bit type 24 part A payload must decode");
    match &m.message_part {
        MessagePart::PartA { vessel_name } => {
            assert!(text_ok(&d, 40, 20, vessel_name), "C13 t24a vessel name");
            crate::cover!(vessel_name.len() == 20, "t24a full name reachable");
        }
        _ => assert!(false, "part number 0 is part A"),
    }
}
pub fn c13_t19<N: Nd>(nd: &mut N) {
    use ais::messages::extended_class_b_position_report::ExtendedClassBPositionReport;
    let d: [u8; 39] = nd.bytes();
    let m = must!(ExtendedClassBPositionReport::parse(&d), "a 312-bit type 19 payload must decode");
    assert!(text_ok(&d, 143, 20, &m.name), "C13 t19 name");
    assert!(m.dimension_to_bow as u64 == bits(&d, 271, 9), "C13 t19 field after the text");
    crate::cover!(m.name.len() == 20, "t19 full name reachable");
}
pub fn c13_t21<N: Nd>(nd: &mut N) {
    use ais::messages::aid_to_navigation_report::AidToNavigationReport;
    let d: [u8; 34] = nd.bytes();
    let m = must!(AidToNavigationReport::parse(&d), "a 272-bit type 21 payload must decode");
    assert!(text_ok(&d, 43, 20, &m.name), "C13 t21 name");
    assert!(m.dimension_to_bow as u64 == bits(&d, 219, 9), "C13 t21 field after the text");
    crate::cover!(m.name.len() == 20, "t21 full name reachable");
}
pub fn c13_t05<N: Nd>(nd: &mut N) {
    use ais::messages::static_and_voyage_related_data::StaticAndVoyageRelatedData;
    let d: [u8; 53] = nd.bytes();
    let m = must!(StaticAndVoyageRelatedData::parse(&d), "a 424-bit type 5 payload must decode");
    assert!(text_ok(&d, 70, 7, &m.callsign), "C13 t5 call sign");
    assert!(text_ok(&d, 112, 20, &m.vessel_name), "C13 t5 vessel name");
    assert!(text_ok(&d, 302, 20, &m.destination), "C13 t5 destination");
    assert!(m.dimension_to_bow as u64 == bits(&d, 240, 9), "C13 t5 field between the texts");
    crate::cover!(m.destination.len() == 20, "t5 full destination reachable");
}
/// type 5 truncated: destination with 9 characters (45 bytes)
pub fn c13_t05_trunc<N: Nd>(nd: &mut N) {
    use ais::messages::static_and_voyage_related_data::StaticAndVoyageRelatedData;
    let d: [u8; 45] = nd.bytes();
    let m = must!(StaticAndVoyageRelatedData::parse(&d), "a truncated type 5 payload must decode");
    assert!(text_ok(&d, 302, 9, &m.destination), "C13 t5 truncated destination");
    crate::cover!(m.destination.len() == 9, "t5 nine-character destination reachable");
}

pub mod w8 {
    use super::*;
    crate::harnesses!(L8; utf8; unwind 10; c13_t24b, c13_t14_k01, c13_t14_k02, c13_t14_k04, c13_t14_k05, c13_t14_k06, c13_t14_k08,
        c13_t12_k01, c13_t12_k04, c13_t12_k08);
}
pub mod w20 {
    use super::*;
    crate::harnesses!(L20; utf8; unwind 22; c13_t14_k12, c13_t14_k16, c13_t14_k20, c13_t12_k20, c13_t24a, c13_t19, c13_t21, c13_t05, c13_t05_trunc);
}
