//! C09 (Kani leaves): the 6-bit type accessor, and each decoded message's own type field.
//! The dispatch itself (type value -> variant) is decided by engine M on the MIR of messages::parse.
use crate::nd::Nd;
use crate::spec::*;
use ais::messages::AisMessageType;

pub fn c09_message_type_leaf<N: Nd>(nd: &mut N) {
    let buf: [u8; 4] = nd.bytes();
    let n = nd.usize();
    nd.assume(n <= 4);
    let r = ais::messages::message_type(&buf[..n]);
    match r {
        Ok((_, t)) => assert!(n >= 1 && t == buf[0] >> 2, "C09 message_type = first six bits"),
        Err(_) => assert!(n == 0, "C09 message_type fails only on empty input"),
    }
    crate::cover!(n == 1 && buf[0] == 0xff, "one-byte input reachable");
    crate::cover!(n == 0, "empty input reachable");
}

/// for every message struct: its own `message_type` field equals the first six payload bits,
/// whatever they are (also when the struct's parser is called on a foreign type value)
macro_rules! own_type {
    ($name:ident, $ty:path, $len:literal) => {
        pub fn $name<N: Nd>(nd: &mut N) {
            use $ty as T;
            let d: [u8; $len] = nd.bytes();
            if let Ok(m) = T::parse(&d) {
                assert!(m.message_type as u64 == bits(&d, 0, 6), "C09 own type field = first six bits");
                crate::cover!(true, "decode reachable");
            }
        }
    };
}
own_type!(c09_own_t01, ais::messages::position_report::PositionReport, 21);
own_type!(c09_own_t04, ais::messages::base_station_report::BaseStationReport, 21);
own_type!(c09_own_t05, ais::messages::static_and_voyage_related_data::StaticAndVoyageRelatedData, 53);
own_type!(c09_own_t06, ais::messages::binary_addressed::BinaryAddressedMessage, 12);
own_type!(c09_own_t07, ais::messages::binary_acknowledge::BinaryAcknowledge, 9);
own_type!(c09_own_t08, ais::messages::binary_broadcast_message::BinaryBroadcastMessage, 8);
own_type!(c09_own_t09, ais::messages::standard_aircraft_position_report::SARPositionReport, 21);
own_type!(c09_own_t10, ais::messages::utc_date_inquiry::UtcDateInquiry, 9);
own_type!(c09_own_t11, ais::messages::utc_date_response::UtcDateResponse, 21);
own_type!(c09_own_t12, ais::messages::addressed_safety_related::AddressedSafetyRelatedMessage, 10);
own_type!(c09_own_t13, ais::messages::safety_related_acknowledgment::SafetyRelatedAcknowledge, 9);
own_type!(c09_own_t14, ais::messages::safety_related_broadcast::SafetyRelatedBroadcastMessage, 6);
own_type!(c09_own_t15, ais::messages::interrogation::Interrogation, 11);
own_type!(c09_own_t16, ais::messages::assignment_mode_command::AssignmentModeCommand, 12);
own_type!(c09_own_t17, ais::messages::dgnss_broadcast_binary_message::DgnssBroadcastBinaryMessage, 15);
own_type!(c09_own_t18, ais::messages::standard_class_b_position_report::StandardClassBPositionReport, 21);
own_type!(c09_own_t19, ais::messages::extended_class_b_position_report::ExtendedClassBPositionReport, 39);
own_type!(c09_own_t20, ais::messages::data_link_management_message::DataLinkManagementMessage, 9);
own_type!(c09_own_t21, ais::messages::aid_to_navigation_report::AidToNavigationReport, 34);
own_type!(c09_own_t24, ais::messages::static_data_report::StaticDataReport, 21);
own_type!(c09_own_t27, ais::messages::long_range_ais_broadcast::LongRangeAisBroadcastMessage, 12);

pub mod wp {
    use super::*;
    crate::harnesses!(LP; plain; unwind 6; c09_message_type_leaf, c09_own_t01, c09_own_t04, c09_own_t06, c09_own_t07, c09_own_t08,
        c09_own_t09, c09_own_t10, c09_own_t11, c09_own_t13, c09_own_t15, c09_own_t16, c09_own_t17, c09_own_t18, c09_own_t20, c09_own_t27);
}
pub mod wt {
    use super::*;
    crate::harnesses!(LT; skiptext; unwind 6; c09_own_t05, c09_own_t12, c09_own_t14, c09_own_t19, c09_own_t21, c09_own_t24);
}
