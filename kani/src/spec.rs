//! Reference ("oracle") functions, written from ITU-R M.1371-5 / the AIVDM description,
//! independent of the implementation under test.

/// `w` (<= 32) bits starting at bit `off`, most significant bit first; bits beyond the end
/// of `data` read as zero.  Loop-free so that CBMC needs no unwinding for it.
#[inline(always)]
pub fn bits(data: &[u8], off: usize, w: usize) -> u64 {
    let b = off / 8;
    let g = |i: usize| -> u64 {
        if i < data.len() {
            data[i] as u64
        } else {
            0
        }
    };
    let acc = (g(b) << 32) | (g(b + 1) << 24) | (g(b + 2) << 16) | (g(b + 3) << 8) | g(b + 4);
    (acc >> (40 - (off % 8) - w)) & ((1u64 << w) - 1)
}

/// two's complement sign extension of a `w`-bit value
#[inline(always)]
pub fn sext(v: u64, w: usize) -> i32 {
    let v = v as u32;
    if (v >> (w - 1)) & 1 == 1 {
        (v | (!0u32 << w)) as i32
    } else {
        v as i32
    }
}

/// 6-bit value of an armoring character
#[inline(always)]
pub fn val6(c: u8) -> Option<u8> {
    if c >= b'0' && c <= b'W' {
        Some(c - 48)
    } else if c >= b'`' && c <= b'w' {
        Some(c - 56)
    } else {
        None
    }
}

/// ordered-integer image of an f32 bit pattern (monotone in the float order; -0 and +0 adjacent)
#[inline(always)]
pub fn ford(x: f32) -> i64 {
    let b = x.to_bits();
    if b & 0x8000_0000 != 0 {
        -((b & 0x7fff_ffff) as i64)
    } else {
        b as i64
    }
}

/// "correct to single-precision rounding": ULP distance <= 1 from the f32 quotient raw/d
#[inline(always)]
pub fn close_f32(v: f32, raw: i32, d: f32) -> bool {
    let r = raw as f32 / d;
    let dd = ford(v) - ford(r);
    dd >= -1 && dd <= 1
}
