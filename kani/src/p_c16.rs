//! C16: communication state per SOTDMA / ITDMA rules (ITU-R M.1371-5 §3.3.7.2.1 / §3.3.7.3.2),
//! occupying the last 19 bits (149..168) of the 168-bit message; selector bit 148 for types 9, 18.
use crate::nd::Nd;
use crate::p_c04::must;
use crate::p_c12::sync_ok;
use crate::spec::*;
use ais::messages::radio_status::{RadioStatus, SubMessage};
use ais::messages::AisMessageType;

/// SOTDMA state starting at bit `b`
#[inline(always)]
pub fn sotdma_ok(rs: &RadioStatus, d: &[u8], b: usize) -> bool {
    match rs {
        RadioStatus::Sotdma(s) => {
            let timeout = bits(d, b + 2, 3);
            let sub = bits(d, b + 5, 14);
            sync_ok(bits(d, b, 2) as u8, s.sync_state)
                && s.slot_timeout as u64 == timeout
                && match (timeout, &s.sub_message) {
                    (0, SubMessage::SlotOffset(x)) => *x as i64 == sub as i64,
                    // hour: bits 13..9, minute: bits 8..2, bits 1..0 unused.  The oracle is silent for the
                    // (invalid) minutes 64..127 (see DESIGN.md C16, oracle neutrality)
                    (1, SubMessage::UtcHourAndMinute(h, m)) => {
                        let minute = (sub >> 2) & 0x7f;
                        *h as u64 == (sub >> 9) & 0x1f && (minute >= 64 || *m as u64 == minute)
                    }
                    (2, SubMessage::SlotNumber(x)) | (4, SubMessage::SlotNumber(x)) | (6, SubMessage::SlotNumber(x)) => *x as u64 == sub,
                    (3, SubMessage::ReceivedStations(x)) | (5, SubMessage::ReceivedStations(x)) | (7, SubMessage::ReceivedStations(x)) => {
                        *x as u64 == sub
                    }
                    _ => false,
                }
        }
        _ => false,
    }
}

/// ITDMA state starting at bit `b`
#[inline(always)]
pub fn itdma_ok(rs: &RadioStatus, d: &[u8], b: usize) -> bool {
    match rs {
        RadioStatus::Itdma(s) => {
            sync_ok(bits(d, b, 2) as u8, s.sync_state)
                && s.slot_increment as i64 == bits(d, b + 2, 13) as i64
                && s.num_slots as u64 == bits(d, b + 15, 3)
                && s.keep == (bits(d, b + 18, 1) == 1)
        }
        _ => false,
    }
}

pub fn c16_t01<N: Nd>(nd: &mut N) {
    use ais::messages::position_report::PositionReport;
    let d: [u8; 21] = nd.bytes();
    let t = bits(&d, 0, 6);
    nd.assume(t >= 1 && t <= 3);
    let m = must!(PositionReport::parse(&d), "a 168-bit type 1-3 payload must decode");
    if t == 3 {
        assert!(itdma_ok(&m.radio_status, &d, 149), "C16 type 3 carries an ITDMA state in bits 149..168");
    } else {
        assert!(sotdma_ok(&m.radio_status, &d, 149), "C16 types 1, 2 carry a SOTDMA state in bits 149..168");
    }
    crate::cover!(t == 3 && bits(&d, 167, 1) == 1, "ITDMA keep flag reachable");
    crate::cover!(t == 1 && bits(&d, 151, 3) == 1, "SOTDMA hour/minute reachable");
}
macro_rules! c16_sotdma_only {
    ($name:ident, $ty:path, $t:literal) => {
        pub fn $name<N: Nd>(nd: &mut N) {
            use $ty as T;
            let d: [u8; 21] = nd.bytes();
            nd.assume(bits(&d, 0, 6) == $t);
            let m = must!(T::parse(&d), "a 168-bit type 4/11 payload must decode");
            assert!(sotdma_ok(&m.radio_status, &d, 149), "C16 types 4, 11 carry a SOTDMA state in bits 149..168");
            crate::cover!(bits(&d, 151, 3) == 0 && bits(&d, 154, 14) == 16383, "SOTDMA slot offset reachable");
        }
    };
}
c16_sotdma_only!(c16_t04, ais::messages::base_station_report::BaseStationReport, 4);
c16_sotdma_only!(c16_t11, ais::messages::utc_date_response::UtcDateResponse, 11);

pub fn c16_t18<N: Nd>(nd: &mut N) {
    use ais::messages::standard_class_b_position_report::StandardClassBPositionReport;
    let d: [u8; 21] = nd.bytes();
    let m = must!(StandardClassBPositionReport::parse(&d), "a 168-bit type 18 payload must decode");
    if bits(&d, 148, 1) == 0 {
        assert!(sotdma_ok(&m.radio_status, &d, 149), "C16 type 18 selector 0 = SOTDMA in bits 149..168");
    } else {
        assert!(itdma_ok(&m.radio_status, &d, 149), "C16 type 18 selector 1 = ITDMA in bits 149..168");
    }
    crate::cover!(bits(&d, 148, 1) == 1 && bits(&d, 164, 3) == 7, "type 18 ITDMA reachable");
}

/// type 9 as the specification defines it (selector bit 148, state in 149..168)
pub fn c16_t09<N: Nd>(nd: &mut N) {
    use ais::messages::standard_aircraft_position_report::SARPositionReport;
    let d: [u8; 21] = nd.bytes();
    nd.assume(bits(&d, 0, 6) == 9);
    let m = must!(SARPositionReport::parse(&d), "a 168-bit type 9 payload must decode");
    if bits(&d, 148, 1) == 0 {
        assert!(sotdma_ok(&m.radio_status, &d, 149), "C16 type 9 selector 0 = SOTDMA in bits 149..168");
    } else {
        assert!(itdma_ok(&m.radio_status, &d, 149), "C16 type 9 selector 1 = ITDMA in bits 149..168");
    }
    crate::cover!(bits(&d, 148, 1) == 1, "type 9 selector 1 reachable");
}

/// residual for the known finding on type 9: the implementation's (wrong) behaviour is exactly
/// "SOTDMA decoded from bits 148..167, selector ignored".  Must stay SUCCESSFUL; if it fails,
/// type 9 has drifted to some other decoding and that is reported as a new violation.
pub fn c16_residual_t09<N: Nd>(nd: &mut N) {
    use ais::messages::standard_aircraft_position_report::SARPositionReport;
    let d: [u8; 21] = nd.bytes();
    nd.assume(bits(&d, 0, 6) == 9);
    let m = must!(SARPositionReport::parse(&d), "a 168-bit type 9 payload must decode");
    assert!(sotdma_ok(&m.radio_status, &d, 148), "C16 residual: type 9 = SOTDMA decode of bits 148..167");
    crate::cover!(bits(&d, 150, 3) == 7, "type 9 residual reachable");
}

pub mod wp {
    use super::*;
    crate::harnesses!(LP; plain; unwind 6; c16_t01, c16_t04, c16_t11, c16_t18, c16_t09, c16_residual_t09);
}
