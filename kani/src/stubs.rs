//! Stubs shared by the harnesses (each one is part of the claim; see DESIGN.md §3).
use nom::error::ErrorKind;
use nom::IResult;

#[cfg(any(feature = "std", feature = "alloc"))]
pub fn fmt_stub(_args: core::fmt::Arguments<'_>) -> alloc::string::String {
    alloc::string::String::new()
}

/// `core::str::from_utf8` on data that must be ASCII: asserts the precondition instead of
/// running the (expensive) validation loops.
pub fn utf8_ascii_stub(v: &[u8]) -> Result<&str, core::str::Utf8Error> {
    let mut i = 0;
    while i < v.len() {
        assert!(v[i] < 0x80, "from_utf8 stub: non-ASCII byte");
        i += 1;
    }
    Ok(unsafe { core::str::from_utf8_unchecked(v) })
}

#[cfg(any(feature = "std", feature = "alloc"))]
pub type AsciiString = alloc::string::String;
#[cfg(all(not(feature = "std"), not(feature = "alloc")))]
pub type AsciiString = heapless::String<20>;

#[cfg(any(feature = "std", feature = "alloc"))]
pub type ByteVec = alloc::vec::Vec<u8>;

/// Replaces the private `parse_6bit_ascii` in harnesses whose subject is *not* the text:
/// same end-of-input rule and the same number of bits consumed, empty string returned.
pub fn skip_text_stub(
    input: (&[u8], usize),
    size: usize,
) -> IResult<(&[u8], usize), AsciiString> {
    let k = size / 6;
    let nbits = 6 * k;
    let rem = input.0.len() * 8 - input.1;
    if rem < nbits {
        return Err(nom::Err::Error(nom::error::Error::new(input, ErrorKind::Eof)));
    }
    #[cfg(all(not(feature = "std"), not(feature = "alloc")))]
    if k > 20 {
        return Err(nom::Err::Failure(nom::error::Error::new(input, ErrorKind::TooLarge)));
    }
    let pos = input.1 + nbits;
    Ok(((&input.0[pos / 8..], pos % 8), AsciiString::new()))
}

/// Like `skip_text_stub`, but the returned string has one (non-padding) character per character of the
/// requested range: the harnesses c13w_* read the *range* handed to the text decoder off the result's length
/// (the decoder itself is the subject of the c13_* harnesses).  Natively the real decoder runs on a payload
/// whose every 6-bit group is non-padding, so the same length is expected there.
pub fn len_text_stub(
    input: (&[u8], usize),
    size: usize,
) -> IResult<(&[u8], usize), AsciiString> {
    let k = size / 6;
    let nbits = 6 * k;
    let rem = input.0.len() * 8 - input.1;
    if rem < nbits {
        return Err(nom::Err::Error(nom::error::Error::new(input, ErrorKind::Eof)));
    }
    #[cfg(all(not(feature = "std"), not(feature = "alloc")))]
    if k > 20 {
        return Err(nom::Err::Failure(nom::error::Error::new(input, ErrorKind::TooLarge)));
    }
    let mut s = AsciiString::new();
    let mut i = 0;
    while i < k {
        #[cfg(any(feature = "std", feature = "alloc"))]
        s.push('?');
        #[cfg(all(not(feature = "std"), not(feature = "alloc")))]
        let _ = s.push('?');
        i += 1;
    }
    let pos = input.1 + nbits;
    Ok(((&input.0[pos / 8..], pos % 8), s))
}

/// A *transparent* stand-in for the text decoder (harnesses c13r_*: which bits reach the decoder, for the 20-character fields
/// whose real decoding exhausts CBMC's memory): character i of the result is 0x21 + the 6-bit value at bit 6i of the requested
/// range - injective, never trimmed - with the real decoder's end-of-input and capacity rules.  The real decoder itself is the
/// subject of the c13_* harnesses (all 64^k strings, k <= 8 / 12).
pub fn raw_text_stub(
    input: (&[u8], usize),
    size: usize,
) -> IResult<(&[u8], usize), AsciiString> {
    let k = size / 6;
    let nbits = 6 * k;
    let rem = input.0.len() * 8 - input.1;
    if rem < nbits {
        return Err(nom::Err::Error(nom::error::Error::new(input, ErrorKind::Eof)));
    }
    #[cfg(all(not(feature = "std"), not(feature = "alloc")))]
    if k > 20 {
        return Err(nom::Err::Failure(nom::error::Error::new(input, ErrorKind::TooLarge)));
    }
    // (std / alloc: bytes pushed into a pre-sized Vec<u8> and converted once - String::push of a symbolic char makes CBMC
    //  explore the UTF-8 width branches and the growth path per character: 50 GB; this form: a few GB)
    #[cfg(any(feature = "std", feature = "alloc"))]
    let s = {
        let mut v: crate::stubs::ByteVec = crate::stubs::ByteVec::with_capacity(k);
        let mut i = 0;
        while i < k {
            v.push(0x21 + crate::spec::bits(input.0, input.1 + 6 * i, 6) as u8);
            i += 1;
        }
        // every byte is in 0x21..=0x60: valid UTF-8
        unsafe { AsciiString::from_utf8_unchecked(v) }
    };
    #[cfg(all(not(feature = "std"), not(feature = "alloc")))]
    let s = {
        let mut buf = [0u8; 20];
        let mut i = 0;
        while i < k {
            buf[i] = 0x21 + crate::spec::bits(input.0, input.1 + 6 * i, 6) as u8;
            i += 1;
        }
        let mut s = AsciiString::new();
        // every byte is in 0x21..=0x60: valid UTF-8; k <= 20 was checked above
        let _ = s.push_str(unsafe { core::str::from_utf8_unchecked(&buf[..k]) });
        s
    };
    let pos = input.1 + nbits;
    Ok(((&input.0[pos / 8..], pos % 8), s))
}

// ---- identity-encoding stubs of the pub scaling leaves (C10 wiring harnesses).  Each returns the raw
// argument bit-cast into the f32, tagged so that the four leaves are distinguishable; the wiring harness
// then proves with integer reasoning only that exactly sign_extend(bits(..)) reaches the right leaf and
// that the leaf's result is stored unmodified.  The leaves themselves are verified for every raw value
// by the c10_leaf_* harnesses.
pub const LON_TAG: u32 = 0x0000_0000;
pub const LAT_TAG: u32 = 0x4000_0000;
pub const SOG_TAG: u32 = 0x2000_0000;
pub const COG_TAG: u32 = 0x6000_0000;
pub fn lon_id_stub(data: i32) -> Option<f32> {
    Some(f32::from_bits((data as u32) ^ LON_TAG))
}
pub fn lat_id_stub(data: i32) -> Option<f32> {
    Some(f32::from_bits((data as u32) ^ LAT_TAG))
}
pub fn sog_id_stub(data: u16) -> Option<f32> {
    Some(f32::from_bits((data as u32) ^ SOG_TAG))
}
pub fn cog_id_stub(data: u16) -> Option<f32> {
    Some(f32::from_bits((data as u32) ^ COG_TAG))
}
