//! C03 (exact 6-bit unpacking) and the unarmor part of C01 (totality).
use crate::nd::Nd;
use crate::spec::*;
use ais::messages::unarmor;

/// reference byte `j` of the unarmored stream of `buf[..n]` with the bits from `keep` on cleared
#[inline(always)]
fn ref_byte(buf: &[u8], n: usize, keep: usize, j: usize) -> u8 {
    let c0 = (8 * j) / 6;
    let sh = (8 * j) % 6;
    let v = |k: usize| -> u32 {
        if k < n {
            val6(buf[k]).unwrap_or(0) as u32
        } else {
            0
        }
    };
    let win: u32 = (v(c0) << 12) | (v(c0 + 1) << 6) | v(c0 + 2); // 18 bits
    let mut byte = ((win >> (10 - sh)) & 0xff) as u8;
    let mut b = 0;
    while b < 8 {
        if 8 * j + b >= keep {
            byte &= !(0x80u8 >> b);
        }
        b += 1;
    }
    byte
}

#[inline(always)]
fn unarmor_exact<N: Nd, const MAXN: usize>(nd: &mut N) {
    let buf: [u8; MAXN] = nd.bytes();
    let n = nd.usize();
    nd.assume(n <= MAXN);
    let fill = nd.usize();
    nd.assume(fill <= 5);
    let r = unarmor(&buf[..n], fill);
    let mut bad = false;
    let mut i = 0;
    while i < n {
        if val6(buf[i]).is_none() {
            bad = true;
        }
        i += 1;
    }
    match r {
        Err(_) => assert!(bad, "C03: error only for a byte outside the alphabet"),
        Ok(out) => {
            assert!(!bad, "C03: byte outside the alphabet must be rejected");
            let nbits = 6 * n;
            let nbytes = (nbits + 7) / 8;
            assert!(out.len() == nbytes, "C03: length is ceil(6n/8)");
            let keep = if fill > nbits { 0 } else { nbits - fill };
            let mut j = 0;
            while j < nbytes {
                assert!(out[j] == ref_byte(&buf, n, keep, j), "C03: output byte equals the 6-bit stream");
                j += 1;
            }
            crate::cover!(n == MAXN && fill == 5, "full length with fill reachable");
            crate::cover!(n == 0 && fill == 3, "empty input with fill reachable");
        }
    }
}

pub fn c03_unarmor_n12<N: Nd>(nd: &mut N) {
    unarmor_exact::<N, 12>(nd)
}
pub fn c03_unarmor_n16<N: Nd>(nd: &mut N) {
    unarmor_exact::<N, 16>(nd)
}
pub fn c03_unarmor_n32<N: Nd>(nd: &mut N) {
    unarmor_exact::<N, 32>(nd)
}

/// C01: unarmor is total (Kani's built-in checks are the assertion)
#[inline(always)]
fn unarmor_total<N: Nd, const MAXN: usize>(nd: &mut N) {
    let buf: [u8; MAXN] = nd.bytes();
    let n = nd.usize();
    nd.assume(n <= MAXN);
    let fill = nd.usize();
    nd.assume(fill <= 5);
    let r = unarmor(&buf[..n], fill);
    crate::cover!(r.is_ok() && n == 0 && fill == 5, "empty input with fill reachable");
    crate::cover!(r.is_err(), "error reachable");
}
pub fn c01_unarmor_n16<N: Nd>(nd: &mut N) {
    unarmor_total::<N, 16>(nd)
}
pub fn c01_unarmor_n40<N: Nd>(nd: &mut N) {
    unarmor_total::<N, 40>(nd)
}

pub mod w12 {
    use super::*;
    crate::harnesses!(L12; plain; unwind 14; c03_unarmor_n12);
}
pub mod w16 {
    use super::*;
    crate::harnesses!(L16; plain; unwind 18; c03_unarmor_n16, c01_unarmor_n16);
}
pub mod w40 {
    use super::*;
    crate::harnesses!(L40; plain; unwind 42; c03_unarmor_n32, c01_unarmor_n40);
}
