//! C01 (payload layer): every message parser is total - no panic, overflow, out-of-bounds access,
//! `unreachable!()`, failed `unwrap/expect` - for arbitrary payload bytes *including the type bits*.
//! Kani's built-in checks are the assertions; the harness only supplies arbitrary input.
use crate::nd::Nd;
use ais::messages::AisMessageType;

macro_rules! total_fixed {
    ($name:ident, $ty:path, $len:literal) => {
        pub fn $name<N: Nd>(nd: &mut N) {
            use $ty as T;
            let d: [u8; $len] = nd.bytes();
            let r = T::parse(&d);
            crate::cover!(r.is_ok(), "a decodable payload is reachable");
        }
    };
}
macro_rules! total_symlen {
    ($name:ident, $ty:path, $max:literal) => {
        pub fn $name<N: Nd>(nd: &mut N) {
            use $ty as T;
            let buf: [u8; $max] = nd.bytes();
            let n = nd.usize();
            nd.assume(n <= $max);
            let r = T::parse(&buf[..n]);
            crate::cover!(r.is_ok(), "a decodable payload is reachable");
            crate::cover!(r.is_err() && n > 0, "a rejected non-empty payload is reachable");
        }
    };
}
use ais::messages as M;
// exact specification length, all bits symbolic (type bits included)
total_fixed!(c01_fix_t01, M::position_report::PositionReport, 21);
total_fixed!(c01_fix_t04, M::base_station_report::BaseStationReport, 21);
total_fixed!(c01_fix_t05, M::static_and_voyage_related_data::StaticAndVoyageRelatedData, 53);
total_fixed!(c01_fix_t06, M::binary_addressed::BinaryAddressedMessage, 16);
total_fixed!(c01_fix_t07, M::binary_acknowledge::BinaryAcknowledge, 21);
total_fixed!(c01_fix_t08, M::binary_broadcast_message::BinaryBroadcastMessage, 12);
total_fixed!(c01_fix_t09, M::standard_aircraft_position_report::SARPositionReport, 21);
total_fixed!(c01_fix_t10, M::utc_date_inquiry::UtcDateInquiry, 9);
total_fixed!(c01_fix_t11, M::utc_date_response::UtcDateResponse, 21);
total_fixed!(c01_fix_t12, M::addressed_safety_related::AddressedSafetyRelatedMessage, 12);
total_fixed!(c01_fix_t13, M::safety_related_acknowledgment::SafetyRelatedAcknowledge, 21);
total_fixed!(c01_fix_t14, M::safety_related_broadcast::SafetyRelatedBroadcastMessage, 8);
total_fixed!(c01_fix_t15, M::interrogation::Interrogation, 20);
total_fixed!(c01_fix_t16, M::assignment_mode_command::AssignmentModeCommand, 18);
total_fixed!(c01_fix_t17, M::dgnss_broadcast_binary_message::DgnssBroadcastBinaryMessage, 18);
total_fixed!(c01_fix_t18, M::standard_class_b_position_report::StandardClassBPositionReport, 21);
total_fixed!(c01_fix_t19, M::extended_class_b_position_report::ExtendedClassBPositionReport, 39);
total_fixed!(c01_fix_t20, M::data_link_management_message::DataLinkManagementMessage, 20);
total_fixed!(c01_fix_t21, M::aid_to_navigation_report::AidToNavigationReport, 34);
total_fixed!(c01_fix_t24, M::static_data_report::StaticDataReport, 21);
total_fixed!(c01_fix_t27, M::long_range_ais_broadcast::LongRangeAisBroadcastMessage, 12);
// symbolic length 0..=max (max = specification maximum + 2 bytes, or a stated cut for open-ended types)
total_symlen!(c01_len_t01, M::position_report::PositionReport, 23);
total_symlen!(c01_len_t04, M::base_station_report::BaseStationReport, 23);
total_symlen!(c01_len_t05, M::static_and_voyage_related_data::StaticAndVoyageRelatedData, 55);
total_symlen!(c01_len_t06, M::binary_addressed::BinaryAddressedMessage, 16);
total_symlen!(c01_len_t07, M::binary_acknowledge::BinaryAcknowledge, 23);
total_symlen!(c01_len_t08, M::binary_broadcast_message::BinaryBroadcastMessage, 12);
total_symlen!(c01_len_t09, M::standard_aircraft_position_report::SARPositionReport, 23);
total_symlen!(c01_len_t10, M::utc_date_inquiry::UtcDateInquiry, 11);
total_symlen!(c01_len_t11, M::utc_date_response::UtcDateResponse, 23);
total_symlen!(c01_len_t12, M::addressed_safety_related::AddressedSafetyRelatedMessage, 13);
total_symlen!(c01_len_t13, M::safety_related_acknowledgment::SafetyRelatedAcknowledge, 23);
total_symlen!(c01_len_t14, M::safety_related_broadcast::SafetyRelatedBroadcastMessage, 9);
total_symlen!(c01_len_t15, M::interrogation::Interrogation, 22);
total_symlen!(c01_len_t16, M::assignment_mode_command::AssignmentModeCommand, 20);
total_symlen!(c01_len_t17, M::dgnss_broadcast_binary_message::DgnssBroadcastBinaryMessage, 18);
total_symlen!(c01_len_t18, M::standard_class_b_position_report::StandardClassBPositionReport, 23);
total_symlen!(c01_len_t19, M::extended_class_b_position_report::ExtendedClassBPositionReport, 41);
total_symlen!(c01_len_t20, M::data_link_management_message::DataLinkManagementMessage, 22);
total_symlen!(c01_len_t21, M::aid_to_navigation_report::AidToNavigationReport, 36);
total_symlen!(c01_len_t24, M::static_data_report::StaticDataReport, 23);
total_symlen!(c01_len_t27, M::long_range_ais_broadcast::LongRangeAisBroadcastMessage, 14);

// real text decoding (no text stub): safety texts of 4 and of 21 characters (21 exceeds the no-allocator
// capacity of 20 and must be an error there, not a panic), long payloads with the text stub
total_fixed!(c01_text_t14_k04, M::safety_related_broadcast::SafetyRelatedBroadcastMessage, 8);
macro_rules! total_fixed_any {
    ($name:ident, $ty:path, $len:literal) => {
        pub fn $name<N: Nd>(nd: &mut N) {
            use $ty as T;
            let d: [u8; $len] = nd.bytes();
            let r = T::parse(&d);
            crate::cover!(r.is_ok() || r.is_err(), "end of harness reachable");
        }
    };
}
total_fixed_any!(c01_long_t14, M::safety_related_broadcast::SafetyRelatedBroadcastMessage, 126);
total_fixed_any!(c01_long_t12, M::addressed_safety_related::AddressedSafetyRelatedMessage, 126);
total_fixed_any!(c01_text_t14_k21, M::safety_related_broadcast::SafetyRelatedBroadcastMessage, 21);
total_fixed_any!(c01_text_t12_k21, M::addressed_safety_related::AddressedSafetyRelatedMessage, 25);

/// the public dispatcher on an empty and a one-byte payload (its `?` on message_type)
pub fn c01_dispatch_short<N: Nd>(nd: &mut N) {
    let b = nd.u8();
    let r0 = ais::messages::parse(&[]);
    assert!(r0.is_err(), "C01: the empty payload is rejected, not a panic");
    core::mem::forget(r0);
    let _ = b;
    crate::cover!(true, "reachable");
}

pub mod wfp {
    use super::*;
    crate::harnesses!(LFP; plain; unwind 7; c01_fix_t01, c01_fix_t04, c01_fix_t06, c01_fix_t07, c01_fix_t08, c01_fix_t09, c01_fix_t10,
        c01_fix_t11, c01_fix_t13, c01_fix_t15, c01_fix_t16, c01_fix_t17, c01_fix_t18, c01_fix_t20, c01_fix_t27,
        c01_len_t01, c01_len_t04, c01_len_t06, c01_len_t07, c01_len_t08, c01_len_t09, c01_len_t10, c01_len_t11, c01_len_t13,
        c01_len_t15, c01_len_t16, c01_len_t17, c01_len_t18, c01_len_t20, c01_len_t27);
}
pub mod wft {
    use super::*;
    crate::harnesses!(LFT; skiptext; unwind 7; c01_fix_t05, c01_fix_t12, c01_fix_t14, c01_fix_t19, c01_fix_t21, c01_fix_t24,
        c01_len_t05, c01_len_t12, c01_len_t14, c01_len_t19, c01_len_t21, c01_len_t24, c01_long_t14, c01_long_t12);
}
pub mod wtx {
    use super::*;
    crate::harnesses!(LTX; utf8; unwind 24; c01_text_t14_k21, c01_text_t12_k21);
}
pub mod wtx4 {
    use super::*;
    crate::harnesses!(LTX4; utf8; unwind 7; c01_text_t14_k04);
}
