//! C14: variable-length messages decode what is present; short payloads are rejected.
//! One harness per message type with a *symbolic* payload length n in 0..=MAX bytes (all contents
//! symbolic).  Oracle per type: `max_err` (every length up to it cannot hold the mandatory part and
//! must be rejected), `min_ok` (every length from it on must decode), in between (lengths the
//! specification does not produce) the check is neutral on accept/reject; whenever a message is
//! returned, the number of reported elements equals the number of complete elements present and
//! every reported value equals the bits at its specified position (`bits()` reads zero beyond the end,
//! so nothing can be fabricated from bits beyond the end).
use crate::nd::Nd;
use crate::spec::*;
use ais::messages::AisMessageType;

macro_rules! eqv {
    ($v:expr, $d:expr, $off:expr, $w:expr, $msg:literal) => {
        assert!(($v) as u64 == bits($d, $off, $w), $msg)
    };
}

/// fixed-length layouts: reject below the layout length, accept from it on
macro_rules! fixed_len {
    ($name:ident, $ty:path, $max:literal, $need:literal, $pin:expr) => {
        pub fn $name<N: Nd>(nd: &mut N) {
            use $ty as T;
            let buf: [u8; $max] = nd.bytes();
            let n = nd.usize();
            nd.assume(n <= $max);
            let d = &buf[..n];
            if n >= 1 {
                let t = bits(d, 0, 6);
                nd.assume(($pin)(t));
            }
            match T::parse(d) {
                Err(_) => assert!(n < $need, "C14: a payload holding the whole layout must decode"),
                Ok(m) => {
                    assert!(n >= $need, "C14: a payload shorter than the layout must be rejected");
                    eqv!(m.mmsi, d, 8, 30, "C14: mmsi equals the transmitted bits");
                    crate::cover!(n == $max, "over-long payload reachable");
                    crate::cover!(n == $need, "exact-length payload reachable");
                }
            }
        }
    };
}
fixed_len!(c14_t01, ais::messages::position_report::PositionReport, 23, 21, |t: u64| t >= 1 && t <= 3);
fixed_len!(c14_t04, ais::messages::base_station_report::BaseStationReport, 23, 21, |t: u64| t == 4);
fixed_len!(c14_t09, ais::messages::standard_aircraft_position_report::SARPositionReport, 23, 21, |t: u64| t == 9);
fixed_len!(c14_t10, ais::messages::utc_date_inquiry::UtcDateInquiry, 11, 9, |_t: u64| true);
fixed_len!(c14_t11, ais::messages::utc_date_response::UtcDateResponse, 23, 21, |t: u64| t == 11);
fixed_len!(c14_t18, ais::messages::standard_class_b_position_report::StandardClassBPositionReport, 23, 21, |_t: u64| true);
fixed_len!(c14_t19, ais::messages::extended_class_b_position_report::ExtendedClassBPositionReport, 41, 39, |_t: u64| true);
fixed_len!(c14_t21, ais::messages::aid_to_navigation_report::AidToNavigationReport, 36, 34, |_t: u64| true);
fixed_len!(c14_t27, ais::messages::long_range_ais_broadcast::LongRangeAisBroadcastMessage, 14, 12, |_t: u64| true);
fixed_len!(c14_t06, ais::messages::binary_addressed::BinaryAddressedMessage, 13, 11, |_t: u64| true);
fixed_len!(c14_t08, ais::messages::binary_broadcast_message::BinaryBroadcastMessage, 9, 7, |_t: u64| true);

/// type 17: 80-bit header mandatory; the implementation additionally needs the 40-bit DGNSS header
/// (80..119 bits: neutral)
pub fn c14_t17<N: Nd>(nd: &mut N) {
    use ais::messages::dgnss_broadcast_binary_message::DgnssBroadcastBinaryMessage;
    let buf: [u8; 17] = nd.bytes();
    let n = nd.usize();
    nd.assume(n <= 17);
    let d = &buf[..n];
    match DgnssBroadcastBinaryMessage::parse(d) {
        Err(_) => assert!(n < 15, "C14 t17: a payload with both headers must decode"),
        Ok(m) => {
            assert!(n >= 10, "C14 t17: a payload shorter than the 80-bit header must be rejected");
            eqv!(m.mmsi, d, 8, 30, "C14 t17 mmsi");
            eqv!(m.payload.station_id, d, 86, 10, "C14 t17 station id");
            assert!(m.payload.data.len() + 15 == n || n < 15, "C14 t17: data length = what is present");
            crate::cover!(n == 17, "t17 with data reachable");
        }
    }
}

/// acknowledgement lists (7, 13): 40 + 32 k bits
macro_rules! ack_len {
    ($name:ident, $ty:path) => {
        pub fn $name<N: Nd>(nd: &mut N) {
            use $ty as T;
            let buf: [u8; 23] = nd.bytes();
            let n = nd.usize();
            nd.assume(n <= 23);
            let d = &buf[..n];
            match T::parse(d) {
                Err(_) => assert!(n < 9, "C14 ack: a payload with one complete entry must decode"),
                Ok(m) => {
                    assert!(n >= 9, "C14 ack: a payload without a complete entry must be rejected");
                    let present = (8 * n - 40) / 32;
                    let want = if present > 4 { 4 } else { present };
                    assert!(m.acks.len() == want, "C14 ack: entries reported = complete entries present (max 4)");
                    let mut i = 0;
                    while i < 4 {
                        if i < m.acks.len() {
                            eqv!(m.acks[i].mmsi, d, 40 + 32 * i, 30, "C14 ack entry mmsi");
                            eqv!(m.acks[i].seq_num, d, 70 + 32 * i, 2, "C14 ack entry sequence number");
                        }
                        i += 1;
                    }
                    crate::cover!(m.acks.len() == 4 && n == 23, "four entries with trailing bytes reachable");
                    crate::cover!(m.acks.len() == 2 && n == 14, "two entries with a partial third reachable");
                }
            }
        }
    };
}
ack_len!(c14_t07, ais::messages::binary_acknowledge::BinaryAcknowledge);
ack_len!(c14_t13, ais::messages::safety_related_acknowledgment::SafetyRelatedAcknowledge);

/// type 20: 40 + 30 k bits
pub fn c14_t20<N: Nd>(nd: &mut N) {
    use ais::messages::data_link_management_message::DataLinkManagementMessage;
    let buf: [u8; 22] = nd.bytes();
    let n = nd.usize();
    nd.assume(n <= 22);
    let d = &buf[..n];
    match DataLinkManagementMessage::parse(d) {
        Err(_) => assert!(n < 9, "C14 t20: a payload with one complete reservation must decode"),
        Ok(m) => {
            assert!(n >= 9, "C14 t20: a payload without a complete reservation must be rejected");
            let present = (8 * n - 40) / 30;
            let want = if present > 4 { 4 } else { present };
            assert!(m.reservations.len() == want, "C14 t20: reservations reported = complete reservations present (max 4)");
            let mut i = 0;
            while i < 4 {
                if i < m.reservations.len() {
                    eqv!(m.reservations[i].offset, d, 40 + 30 * i, 12, "C14 t20 reservation offset");
                    eqv!(m.reservations[i].num_slots, d, 52 + 30 * i, 4, "C14 t20 reservation slots");
                    eqv!(m.reservations[i].timeout, d, 56 + 30 * i, 3, "C14 t20 reservation timeout");
                    eqv!(m.reservations[i].increment, d, 59 + 30 * i, 11, "C14 t20 reservation increment");
                }
                i += 1;
            }
            crate::cover!(m.reservations.len() == 4 && n == 22, "four reservations with trailing bytes reachable");
            crate::cover!(m.reservations.len() == 3 && n == 17, "three reservations reachable");
        }
    }
}

/// type 16: one assignment from 96 bits, two from 144 bits
pub fn c14_t16<N: Nd>(nd: &mut N) {
    use ais::messages::assignment_mode_command::AssignmentModeCommand;
    let buf: [u8; 20] = nd.bytes();
    let n = nd.usize();
    nd.assume(n <= 20);
    let d = &buf[..n];
    match AssignmentModeCommand::parse(d) {
        Err(_) => assert!(n < 12, "C14 t16: a 96-bit payload must decode"),
        Ok(m) => {
            assert!(n >= 12, "C14 t16: a payload shorter than one assignment must be rejected");
            eqv!(m.mmsi1, d, 40, 30, "C14 t16 mmsi1");
            eqv!(m.offset1, d, 70, 12, "C14 t16 offset1");
            eqv!(m.increment1, d, 82, 10, "C14 t16 increment1");
            if n >= 18 {
                assert!(m.mmsi2.is_some() && m.offset2.is_some() && m.increment2.is_some(), "C14 t16: second assignment present from 144 bits");
                eqv!(m.mmsi2.unwrap_or(0), d, 92, 30, "C14 t16 mmsi2");
                eqv!(m.offset2.unwrap_or(0), d, 122, 12, "C14 t16 offset2");
                eqv!(m.increment2.unwrap_or(0), d, 134, 10, "C14 t16 increment2");
            } else {
                assert!(m.mmsi2.is_none() && m.offset2.is_none() && m.increment2.is_none(), "C14 t16: no second assignment below 144 bits");
            }
            crate::cover!(n == 17, "17-byte payload reachable");
            crate::cover!(n == 20, "20-byte payload reachable");
        }
    }
}

/// type 15: 88 bits (one station, one request), 110 (two requests), 160 (two stations).
/// 76..87 bits: neutral on accept/reject (the slot offset reads as absent = zero padding).
pub fn c14_t15<N: Nd>(nd: &mut N) {
    use ais::messages::interrogation::Interrogation;
    let buf: [u8; 22] = nd.bytes();
    let n = nd.usize();
    nd.assume(n <= 22);
    let d = &buf[..n];
    let nbits = 8 * n;
    match Interrogation::parse(d) {
        Err(_) => assert!(n < 11 || (n >= 15 && n < 20), "C14 t15: 88..112-bit and >= 160-bit payloads must decode"),
        Ok(m) => {
            assert!(n >= 10, "C14 t15: a payload without a complete first request must be rejected");
            assert!(m.stations.len() >= 1 && m.stations[0].messages.len() >= 1, "C14 t15: first station and request reported");
            eqv!(m.stations[0].mmsi, d, 40, 30, "C14 t15 station 1 mmsi");
            eqv!(m.stations[0].messages[0].message_type, d, 70, 6, "C14 t15 request 1.1 type");
            if let Some(o) = m.stations[0].messages[0].slot_offset {
                assert!(nbits >= 88, "C14 t15: slot offset 1.1 reported only when present");
                eqv!(o, d, 76, 12, "C14 t15 request 1.1 slot offset");
            }
            if m.stations[0].messages.len() == 2 {
                assert!(nbits >= 96, "C14 t15: request 1.2 reported only when present");
                eqv!(m.stations[0].messages[1].message_type, d, 90, 6, "C14 t15 request 1.2 type");
                if let Some(o) = m.stations[0].messages[1].slot_offset {
                    assert!(nbits >= 108, "C14 t15: slot offset 1.2 reported only when present");
                    eqv!(o, d, 96, 12, "C14 t15 request 1.2 slot offset");
                }
            } else {
                assert!(m.stations[0].messages.len() == 1, "C14 t15: at most two requests for station 1");
                // a second request that is present and non-zero must be reported
                assert!(nbits < 96 || (bits(d, 90, 6) == 0 && (nbits < 108 || bits(d, 96, 12) == 0)), "C14 t15: a present request 1.2 must be reported");
            }
            if m.stations.len() == 2 {
                assert!(nbits >= 146, "C14 t15: second station reported only when present");
                eqv!(m.stations[1].mmsi, d, 110, 30, "C14 t15 station 2 mmsi");
                assert!(m.stations[1].messages.len() >= 1, "C14 t15: second station has a request");
                eqv!(m.stations[1].messages[0].message_type, d, 140, 6, "C14 t15 request 2.1 type");
                if let Some(o) = m.stations[1].messages[0].slot_offset {
                    assert!(nbits >= 158, "C14 t15: slot offset 2.1 reported only when present");
                    eqv!(o, d, 146, 12, "C14 t15 request 2.1 slot offset");
                }
            } else {
                assert!(m.stations.len() == 1 && nbits < 160, "C14 t15: from 160 bits two stations are reported");
            }
            crate::cover!(m.stations.len() == 2 && n == 20, "two stations at 160 bits reachable");
            crate::cover!(m.stations.len() == 1 && m.stations[0].messages.len() == 2 && n == 14, "two requests at 112 bits reachable");
            crate::cover!(n == 11, "88-bit payload reachable");
        }
    }
}

/// type 24: part A 160 bits (spare optional), part B 168 bits, parts 2/3 unknown
pub fn c14_t24<N: Nd>(nd: &mut N) {
    use ais::messages::static_data_report::{MessagePart, StaticDataReport};
    let buf: [u8; 23] = nd.bytes();
    let n = nd.usize();
    nd.assume(n <= 23);
    let d = &buf[..n];
    let part = bits(d, 38, 2);
    match StaticDataReport::parse(d) {
        Err(_) => assert!(n < 5 || (part == 0 && n < 20) || (part == 1 && n < 21), "C14 t24: a complete part A (160 bits) / part B (168 bits) must decode"),
        Ok(m) => {
            assert!(n >= 5, "C14 t24: a payload without the part number must be rejected");
            eqv!(m.mmsi, d, 8, 30, "C14 t24 mmsi");
            match m.message_part {
                MessagePart::PartA { .. } => assert!(part == 0 && n >= 20, "C14 t24: part A needs its 120-bit name"),
                MessagePart::PartB { serial_number, dimension_to_starboard, .. } => {
                    assert!(part == 1 && n >= 21, "C14 t24: part B needs 168 bits");
                    eqv!(serial_number, d, 70, 20, "C14 t24 serial number");
                    eqv!(dimension_to_starboard, d, 156, 6, "C14 t24 dimension to starboard");
                }
                MessagePart::Unknown(x) => assert!(part >= 2 && x as u64 == part, "C14 t24 unknown part"),
            }
            crate::cover!(part == 0 && n == 20, "part A without spare reachable");
            crate::cover!(part == 1 && n == 21, "part B reachable");
        }
    }
}

/// type 5: truncated destination; DTE defaults to 'not ready' when no bit is left for it.
/// (text skipped by the stub; reading of "missing DTE": no bit left after the destination
/// characters present - see DESIGN.md C14)
pub fn c14_t05<N: Nd>(nd: &mut N) {
    use ais::messages::static_and_voyage_related_data::StaticAndVoyageRelatedData;
    use ais::messages::types::Dte;
    let buf: [u8; 55] = nd.bytes();
    let n = nd.usize();
    nd.assume(n <= 55);
    let d = &buf[..n];
    match StaticAndVoyageRelatedData::parse(d) {
        Err(_) => assert!(n < 38, "C14 t5: a payload holding everything up to the draught must decode"),
        Ok(m) => {
            assert!(n >= 38, "C14 t5: a payload cut before the destination field must be rejected");
            eqv!(m.imo_number, d, 40, 30, "C14 t5 imo number");
            eqv!(m.dimension_to_starboard, d, 264, 6, "C14 t5 dimension to starboard");
            let rest = 8 * n - 302;
            let dest_bits = 6 * ((if rest > 120 { 120 } else { rest }) / 6);
            if rest == dest_bits {
                assert!(matches!(m.dte, Dte::NotReady), "C14 t5: missing DTE defaults to not ready");
            } else {
                let b = bits(d, 302 + dest_bits, 1);
                assert!((b == 0 && matches!(m.dte, Dte::Ready)) || (b == 1 && matches!(m.dte, Dte::NotReady)), "C14 t5: DTE = the bit following the destination");
            }
            crate::cover!(n == 53, "full-length type 5 reachable");
            crate::cover!(n == 38, "type 5 cut right after the draught reachable");
            crate::cover!(rest == dest_bits, "type 5 without a DTE bit reachable");
        }
    }
}

/// safety texts (12, 14): accept from one character; characters are C13's subject (text stub)
pub fn c14_t12<N: Nd>(nd: &mut N) {
    use ais::messages::addressed_safety_related::AddressedSafetyRelatedMessage;
    let buf: [u8; 13] = nd.bytes();
    let n = nd.usize();
    nd.assume(n <= 13);
    let d = &buf[..n];
    match AddressedSafetyRelatedMessage::parse(d) {
        Err(_) => assert!(n < 10, "C14 t12: header plus one character must decode"),
        Ok(m) => {
            assert!(n >= 10, "C14 t12: a payload without a text character must be rejected");
            eqv!(m.dest_mmsi, d, 40, 30, "C14 t12 destination mmsi");
            crate::cover!(n == 13, "t12 with several characters reachable");
        }
    }
}
pub fn c14_t14<N: Nd>(nd: &mut N) {
    use ais::messages::safety_related_broadcast::SafetyRelatedBroadcastMessage;
    let buf: [u8; 9] = nd.bytes();
    let n = nd.usize();
    nd.assume(n <= 9);
    let d = &buf[..n];
    match SafetyRelatedBroadcastMessage::parse(d) {
        Err(_) => assert!(n < 6, "C14 t14: header plus one character must decode"),
        Ok(m) => {
            assert!(n >= 6, "C14 t14: a payload without a text character must be rejected");
            eqv!(m.mmsi, d, 8, 30, "C14 t14 mmsi");
            crate::cover!(n == 9, "t14 with several characters reachable");
        }
    }
}

pub mod wp {
    use super::*;
    crate::harnesses!(LP; plain; unwind 7; c14_t01, c14_t04, c14_t09, c14_t10, c14_t11, c14_t18, c14_t27, c14_t06, c14_t08,
        c14_t17, c14_t07, c14_t13, c14_t20, c14_t16, c14_t15);
}
pub mod wt {
    use super::*;
    crate::harnesses!(LT; skiptext; unwind 7; c14_t19, c14_t21, c14_t24, c14_t05, c14_t12, c14_t14);
}
