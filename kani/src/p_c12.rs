//! C12: enumerated codes map to the named values, injectively, unknown codes preserved,
//! 'undefined' codes absent.  Tables written from ITU-R M.1371 in the crate's variant vocabulary.
use crate::nd::Nd;
use crate::p_c04::must;
use crate::spec::*;
use ais::messages::aid_to_navigation_report::NavaidType;
use ais::messages::navigation::{Accuracy, ManeuverIndicator};
use ais::messages::position_report::NavigationStatus;
use ais::messages::radio_status::SyncState;
use ais::messages::types::{AssignedMode, Dte, EpfdType, ShipType};
use ais::messages::AisMessageType;

pub fn navstatus_ok(c: u8, v: Option<NavigationStatus>) -> bool {
    use NavigationStatus::*;
    match c {
        0 => matches!(v, Some(UnderWayUsingEngine)),
        1 => matches!(v, Some(AtAnchor)),
        2 => matches!(v, Some(NotUnderCommand)),
        3 => matches!(v, Some(RestrictedManouverability)),
        4 => matches!(v, Some(ConstrainedByDraught)),
        5 => matches!(v, Some(Moored)),
        6 => matches!(v, Some(Aground)),
        7 => matches!(v, Some(EngagedInFishing)),
        8 => matches!(v, Some(UnderWaySailing)),
        9 => matches!(v, Some(ReservedForHSC)),
        10 => matches!(v, Some(ReservedForWIG)),
        11 => matches!(v, Some(Reserved01)),
        12 => matches!(v, Some(Reserved02)),
        13 => matches!(v, Some(Reserved03)),
        14 => matches!(v, Some(AisSartIsActive)),
        15 => v.is_none(),
        _ => matches!(v, Some(Unknown(x)) if x == c),
    }
}
pub fn maneuver_ok(c: u8, v: Option<ManeuverIndicator>) -> bool {
    match c {
        0 => v.is_none(),
        1 => matches!(v, Some(ManeuverIndicator::NoSpecialManeuver)),
        2 => matches!(v, Some(ManeuverIndicator::SpecialManeuver)),
        _ => matches!(v, Some(ManeuverIndicator::Unknown(x)) if x == c),
    }
}
pub fn epfd_ok(c: u8, v: Option<EpfdType>) -> bool {
    use EpfdType::*;
    match c {
        0 | 15 => v.is_none(),
        1 => matches!(v, Some(Gps)),
        2 => matches!(v, Some(Glonass)),
        3 => matches!(v, Some(CombinedGpsAndGlonass)),
        4 => matches!(v, Some(LoranC)),
        5 => matches!(v, Some(Chayka)),
        6 => matches!(v, Some(IntegratedNavigationSystem)),
        7 => matches!(v, Some(Surveyed)),
        8 => matches!(v, Some(Galileo)),
        _ => matches!(v, Some(Unknown(x)) if x == c),
    }
}
pub fn navaid_ok(c: u8, v: &Option<NavaidType>) -> bool {
    use NavaidType::*;
    match c {
        0 => v.is_none(),
        1 => matches!(v, Some(ReferencePoint)),
        2 => matches!(v, Some(Racon)),
        3 => matches!(v, Some(FixedStructureOffShore)),
        4 => matches!(v, Some(Spare)),
        5 => matches!(v, Some(LightWithoutSectors)),
        6 => matches!(v, Some(LightWithSectors)),
        7 => matches!(v, Some(LeadingLightFront)),
        8 => matches!(v, Some(LeadingLightRear)),
        9 => matches!(v, Some(BeaconCardinalN)),
        10 => matches!(v, Some(BeaconCardinalE)),
        11 => matches!(v, Some(BeaconCardinalS)),
        12 => matches!(v, Some(BeaconCardinalW)),
        13 => matches!(v, Some(BeaconPortHand)),
        14 => matches!(v, Some(BeaconStarboardHand)),
        15 => matches!(v, Some(BeaconPreferredChannelPortHand)),
        16 => matches!(v, Some(BeaconPreferredChannelStarboardHand)),
        17 => matches!(v, Some(BeaconIsolatedDanger)),
        18 => matches!(v, Some(BeaconSafeWater)),
        19 => matches!(v, Some(BeaconSpecialMark)),
        20 => matches!(v, Some(CardinalMarkN)),
        21 => matches!(v, Some(CardinalMarkE)),
        22 => matches!(v, Some(CardinalMarkS)),
        23 => matches!(v, Some(CardinalMarkW)),
        24 => matches!(v, Some(PortHandMark)),
        25 => matches!(v, Some(StarboardHandMark)),
        26 => matches!(v, Some(PreferredChannelPortHand)),
        27 => matches!(v, Some(PreferredChannelStarboardHand)),
        28 => matches!(v, Some(IsolatedDanger)),
        29 => matches!(v, Some(SafeWater)),
        30 => matches!(v, Some(SpecialMark)),
        31 => matches!(v, Some(LightVesselOrLanbyOrRigs)),
        _ => matches!(v, Some(Unknown(x)) if *x == c),
    }
}
/// ship and cargo type: first digit = category, second digit = cargo class (M.1371 table 53)
pub fn shiptype_ok(c: u8, v: Option<ShipType>) -> bool {
    use ShipType::*;
    match c {
        0 => v.is_none(),
        1..=19 => matches!(v, Some(Reserved(x)) if x == c),
        20 => matches!(v, Some(WingInGround)),
        21 => matches!(v, Some(WingInGroundHazardousCategoryA)),
        22 => matches!(v, Some(WingInGroundHazardousCategoryB)),
        23 => matches!(v, Some(WingInGroundHazardousCategoryC)),
        24 => matches!(v, Some(WingInGroundHazardousCategoryD)),
        25..=29 => matches!(v, Some(WingInGroundReserved(x)) if x == c),
        30 => matches!(v, Some(Fishing)),
        31 => matches!(v, Some(Towing)),
        32 => matches!(v, Some(TowingLarge)),
        33 => matches!(v, Some(Dredging)),
        34 => matches!(v, Some(DivingOps)),
        35 => matches!(v, Some(MilitaryOps)),
        36 => matches!(v, Some(Sailing)),
        37 => matches!(v, Some(PleasureCraft)),
        38 | 39 => matches!(v, Some(Reserved(x)) if x == c),
        40 => matches!(v, Some(HighSpeedCraft)),
        41 => matches!(v, Some(HighSpeedCraftHazardousCategoryA)),
        42 => matches!(v, Some(HighSpeedCraftHazardousCategoryB)),
        43 => matches!(v, Some(HighSpeedCraftHazardousCategoryC)),
        44 => matches!(v, Some(HighSpeedCraftHazardousCategoryD)),
        45..=48 => matches!(v, Some(HighSpeedCraftReserved(x)) if x == c),
        49 => matches!(v, Some(HighSpeedCraftNoAdditionalInformation)),
        50 => matches!(v, Some(PilotVessel)),
        51 => matches!(v, Some(SearchAndRescueVessel)),
        52 => matches!(v, Some(Tug)),
        53 => matches!(v, Some(PortTender)),
        54 => matches!(v, Some(AntiPollutionEquipment)),
        55 => matches!(v, Some(LawEnforcement)),
        56 | 57 => matches!(v, Some(SpareLocalVessel(x)) if x == c),
        58 => matches!(v, Some(MedicalTransport)),
        59 => matches!(v, Some(NoncombatantShip)),
        60 => matches!(v, Some(Passenger)),
        61 => matches!(v, Some(PassengerHazardousCategoryA)),
        62 => matches!(v, Some(PassengerHazardousCategoryB)),
        63 => matches!(v, Some(PassengerHazardousCategoryC)),
        64 => matches!(v, Some(PassengerHazardousCategoryD)),
        65..=68 => matches!(v, Some(PassengerReserved(x)) if x == c),
        69 => matches!(v, Some(PassengerNoAdditionalInformation)),
        70 => matches!(v, Some(Cargo)),
        71 => matches!(v, Some(CargoHazardousCategoryA)),
        72 => matches!(v, Some(CargoHazardousCategoryB)),
        73 => matches!(v, Some(CargoHazardousCategoryC)),
        74 => matches!(v, Some(CargoHazardousCategoryD)),
        75..=78 => matches!(v, Some(CargoReserved(x)) if x == c),
        79 => matches!(v, Some(CargoNoAdditionalInformation)),
        80 => matches!(v, Some(Tanker)),
        81 => matches!(v, Some(TankerHazardousCategoryA)),
        82 => matches!(v, Some(TankerHazardousCategoryB)),
        83 => matches!(v, Some(TankerHazardousCategoryC)),
        84 => matches!(v, Some(TankerHazardousCategoryD)),
        85..=88 => matches!(v, Some(TankerReserved(x)) if x == c),
        89 => matches!(v, Some(TankerNoAdditionalInformation)),
        90 => matches!(v, Some(Other)),
        91 => matches!(v, Some(OtherHazardousCategoryA)),
        92 => matches!(v, Some(OtherHazardousCategoryB)),
        93 => matches!(v, Some(OtherHazardousCategoryC)),
        94 => matches!(v, Some(OtherHazardousCategoryD)),
        95..=98 => matches!(v, Some(OtherReserved(x)) if x == c),
        99 => matches!(v, Some(OtherNoAdditionalInformation)),
        _ => v.is_none(),
    }
}
pub fn sync_ok(c: u8, v: SyncState) -> bool {
    match c {
        0 => matches!(v, SyncState::UtcDirect),
        1 => matches!(v, SyncState::UtcIndirect),
        2 => matches!(v, SyncState::BaseStation),
        3 => matches!(v, SyncState::NumberOfReceivedStations),
        _ => matches!(v, SyncState::Unknown(x) if x == c),
    }
}
pub fn dte_ok(c: u64, v: &Dte) -> bool {
    if c == 0 {
        matches!(v, Dte::Ready)
    } else {
        matches!(v, Dte::NotReady)
    }
}
pub fn accuracy_ok(c: u64, v: Accuracy) -> bool {
    if c == 0 {
        matches!(v, Accuracy::Unaugmented)
    } else {
        matches!(v, Accuracy::Dgps)
    }
}
pub fn assigned_ok(c: u64, v: &AssignedMode) -> bool {
    if c == 0 {
        matches!(v, AssignedMode::Autonomous)
    } else {
        matches!(v, AssignedMode::Assigned)
    }
}

// ---------------------------------------------------------------- leaves: every code, plus injectivity

pub fn c12_leaf_small<N: Nd>(nd: &mut N) {
    let a = nd.u8();
    let b = nd.u8();
    assert!(navstatus_ok(a, NavigationStatus::parse(a)), "C12 navigation status table");
    assert!(maneuver_ok(a, ManeuverIndicator::parse(a)), "C12 maneuver indicator table");
    assert!(epfd_ok(a, EpfdType::parse(a)), "C12 position-fix device table");
    assert!(navaid_ok(a, &NavaidType::parse(a)), "C12 aid-to-navigation type table");
    assert!(sync_ok(a, SyncState::parse(a)), "C12 sync state table");
    if a != b {
        let (x, y) = (NavigationStatus::parse(a), NavigationStatus::parse(b));
        assert!(x.is_none() || y.is_none() || x != y, "C12 navigation status injective");
        let (x, y) = (ManeuverIndicator::parse(a), ManeuverIndicator::parse(b));
        assert!(x.is_none() || y.is_none() || x != y, "C12 maneuver indicator injective");
        let (x, y) = (EpfdType::parse(a), EpfdType::parse(b));
        assert!(x.is_none() || y.is_none() || x != y, "C12 position-fix device injective");
        let (x, y) = (NavaidType::parse(a), NavaidType::parse(b));
        assert!(x.is_none() || y.is_none() || x != y, "C12 aid type injective");
        assert!(SyncState::parse(a) != SyncState::parse(b), "C12 sync state injective");
    }
    if a <= 1 {
        assert!(dte_ok(a as u64, &Dte::from(a)), "C12 DTE table");
        assert!(accuracy_ok(a as u64, Accuracy::parse(a)), "C12 accuracy table");
        assert!(assigned_ok(a as u64, &AssignedMode::parse(a)), "C12 assigned mode table");
    }
    crate::cover!(a == 14 && b == 31, "leaf codes reachable");
}

pub fn c12_leaf_shiptype<N: Nd>(nd: &mut N) {
    let a = nd.u8();
    let b = nd.u8();
    let x = ShipType::parse(a);
    assert!(shiptype_ok(a, x), "C12 ship type table");
    if let Some(s) = x {
        assert!(a >= 1 && a <= 99 && u8::from(s) == a, "C12 ship type converts back to its code");
    }
    if a != b {
        let y = ShipType::parse(b);
        assert!(x.is_none() || y.is_none() || x != y, "C12 ship type injective");
    }
    crate::cover!(a == 99 && b == 1, "ship type codes reachable");
}

// ---------------------------------------------------------------- wiring per message type

pub fn c12_t01<N: Nd>(nd: &mut N) {
    use ais::messages::position_report::PositionReport;
    let d: [u8; 21] = nd.bytes();
    let t = bits(&d, 0, 6);
    nd.assume(t >= 1 && t <= 3);
    let m = must!(PositionReport::parse(&d), "a 168-bit type 1-3 payload must decode");
    assert!(navstatus_ok(bits(&d, 38, 4) as u8, m.navigation_status), "C12 t1 navigation status");
    assert!(accuracy_ok(bits(&d, 60, 1), m.position_accuracy), "C12 t1 accuracy");
    assert!(maneuver_ok(bits(&d, 143, 2) as u8, m.maneuver_indicator), "C12 t1 maneuver indicator");
    crate::cover!(m.navigation_status.is_none() && m.maneuver_indicator.is_none(), "t1 undefined codes reachable");
}
macro_rules! c12_t04_like {
    ($name:ident, $ty:path, $t:literal) => {
        pub fn $name<N: Nd>(nd: &mut N) {
            use $ty as T;
            let d: [u8; 21] = nd.bytes();
            nd.assume(bits(&d, 0, 6) == $t);
            let m = must!(T::parse(&d), "a 168-bit type 4/11 payload must decode");
            assert!(accuracy_ok(bits(&d, 78, 1), m.fix_quality), "C12 t4/11 accuracy");
            assert!(epfd_ok(bits(&d, 134, 4) as u8, m.epfd_type), "C12 t4/11 position-fix device");
            crate::cover!(m.epfd_type.is_none() && bits(&d, 134, 4) == 15, "t4/11 undefined fix device reachable");
        }
    };
}
c12_t04_like!(c12_t04, ais::messages::base_station_report::BaseStationReport, 4);
c12_t04_like!(c12_t11, ais::messages::utc_date_response::UtcDateResponse, 11);

pub fn c12_t05<N: Nd>(nd: &mut N) {
    use ais::messages::static_and_voyage_related_data::StaticAndVoyageRelatedData;
    let d: [u8; 53] = nd.bytes();
    let m = must!(StaticAndVoyageRelatedData::parse(&d), "a 424-bit type 5 payload must decode");
    assert!(shiptype_ok(bits(&d, 232, 8) as u8, m.ship_type), "C12 t5 ship type");
    assert!(epfd_ok(bits(&d, 270, 4) as u8, m.epfd_type), "C12 t5 position-fix device");
    assert!(dte_ok(bits(&d, 422, 1), &m.dte), "C12 t5 DTE");
    crate::cover!(m.ship_type.is_none() && bits(&d, 232, 8) == 100, "t5 undefined ship type reachable");
}
pub fn c12_t09<N: Nd>(nd: &mut N) {
    use ais::messages::standard_aircraft_position_report::SARPositionReport;
    let d: [u8; 21] = nd.bytes();
    nd.assume(bits(&d, 0, 6) == 9);
    let m = must!(SARPositionReport::parse(&d), "a 168-bit type 9 payload must decode");
    assert!(accuracy_ok(bits(&d, 60, 1), m.position_accuracy), "C12 t9 accuracy");
    assert!(dte_ok(bits(&d, 142, 1), &m.dte), "C12 t9 DTE");
    assert!(assigned_ok(bits(&d, 146, 1), &m.assigned_mode), "C12 t9 assigned mode");
    crate::cover!(bits(&d, 142, 1) == 1 && bits(&d, 146, 1) == 1, "t9 codes reachable");
}
pub fn c12_t18<N: Nd>(nd: &mut N) {
    use ais::messages::standard_class_b_position_report::{CarrierSense, StandardClassBPositionReport};
    let d: [u8; 21] = nd.bytes();
    let m = must!(StandardClassBPositionReport::parse(&d), "a 168-bit type 18 payload must decode");
    assert!(accuracy_ok(bits(&d, 56, 1), m.position_accuracy), "C12 t18 accuracy");
    assert!(assigned_ok(bits(&d, 146, 1), &m.assigned_mode), "C12 t18 assigned mode");
    let cs = bits(&d, 141, 1);
    assert!(
        (cs == 0 && matches!(m.cs_unit, CarrierSense::Sotdma)) || (cs == 1 && matches!(m.cs_unit, CarrierSense::CarrierSense)),
        "C12 t18 carrier-sense unit"
    );
    crate::cover!(cs == 1 && bits(&d, 146, 1) == 1, "t18 codes reachable");
}
pub fn c12_t19<N: Nd>(nd: &mut N) {
    use ais::messages::extended_class_b_position_report::ExtendedClassBPositionReport;
    let d: [u8; 39] = nd.bytes();
    let m = must!(ExtendedClassBPositionReport::parse(&d), "a 312-bit type 19 payload must decode");
    assert!(accuracy_ok(bits(&d, 56, 1), m.position_accuracy), "C12 t19 accuracy");
    assert!(shiptype_ok(bits(&d, 263, 8) as u8, m.type_of_ship_and_cargo), "C12 t19 ship type");
    assert!(epfd_ok(bits(&d, 301, 4) as u8, m.epfd_type), "C12 t19 position-fix device");
    assert!(dte_ok(bits(&d, 306, 1), &m.dte), "C12 t19 DTE");
    assert!(assigned_ok(bits(&d, 307, 1), &m.assigned_mode), "C12 t19 assigned mode");
    crate::cover!(bits(&d, 263, 8) == 255 && bits(&d, 301, 4) == 9, "t19 codes reachable");
}
pub fn c12_t21<N: Nd>(nd: &mut N) {
    use ais::messages::aid_to_navigation_report::AidToNavigationReport;
    let d: [u8; 34] = nd.bytes();
    let m = must!(AidToNavigationReport::parse(&d), "a 272-bit type 21 payload must decode");
    assert!(navaid_ok(bits(&d, 38, 5) as u8, &m.aid_type), "C12 t21 aid type");
    assert!(accuracy_ok(bits(&d, 163, 1), m.accuracy), "C12 t21 accuracy");
    assert!(epfd_ok(bits(&d, 249, 4) as u8, m.epfd_type), "C12 t21 position-fix device");
    crate::cover!(m.aid_type.is_none() && m.epfd_type.is_none(), "t21 undefined codes reachable");
}
pub fn c12_t24<N: Nd>(nd: &mut N) {
    use ais::messages::static_data_report::{MessagePart, StaticDataReport};
    let d: [u8; 21] = nd.bytes();
    let r = StaticDataReport::parse(&d);
    let part = bits(&d, 38, 2);
    match r {
        Ok(m) => match m.message_part {
            MessagePart::PartA { .. } => assert!(part == 0, "C12 t24 part A is part number 0"),
            MessagePart::PartB { ship_type, .. } => {
                assert!(part == 1, "C12 t24 part B is part number 1");
                assert!(shiptype_ok(bits(&d, 40, 8) as u8, ship_type), "C12 t24 ship type");
            }
            MessagePart::Unknown(x) => assert!((part == 2 || part == 3) && x as u64 == part, "C12 t24 unknown part keeps its number"),
        },
        Err(_) => assert!(false, "a 168-bit type 24 payload must decode"),
    }
    crate::cover!(part == 3, "t24 part 3 reachable");
}
pub fn c12_t27<N: Nd>(nd: &mut N) {
    use ais::messages::long_range_ais_broadcast::LongRangeAisBroadcastMessage;
    let d: [u8; 12] = nd.bytes();
    let m = must!(LongRangeAisBroadcastMessage::parse(&d), "a 96-bit type 27 payload must decode");
    assert!(accuracy_ok(bits(&d, 38, 1), m.position_accuracy), "C12 t27 accuracy");
    assert!(navstatus_ok(bits(&d, 40, 4) as u8, m.navigation_status), "C12 t27 navigation status");
    crate::cover!(m.navigation_status.is_none(), "t27 undefined status reachable");
}

pub mod wp {
    use super::*;
    crate::harnesses!(LP; plain; unwind 6; c12_leaf_small, c12_leaf_shiptype, c12_t01, c12_t04, c12_t11, c12_t09, c12_t18, c12_t27);
}
pub mod wt {
    use super::*;
    crate::harnesses!(LT; skiptext; unwind 6; c12_t05, c12_t19, c12_t21, c12_t24);
}
