//! C02 (Kani leaf): the XOR fold and comparison of `AisParser::check_checksum` on byte strings far longer than
//! the text-layer bound of engine M (which treats lines of at most N = 32 / 48 bytes): every byte of the
//! checksummed range counts, for ranges up to 96 (quick) / 400 (thorough) bytes.
//! Needs the cfg-guarded hook `AisParser::verif_check_checksum` in /repo (see MANIFEST.hooks).
use crate::nd::Nd;
use ais::errors::Error;
use ais::sentence::AisParser;

#[inline(always)]
fn fold_ok<N: Nd, const MAXN: usize>(nd: &mut N) {
    let buf: [u8; MAXN] = nd.bytes();
    let n = nd.usize();
    nd.assume(n <= MAXN);
    let transmitted = nd.u8();
    let mut x = 0u8;
    let mut i = 0;
    while i < n {
        x ^= buf[i];
        i += 1;
    }
    match AisParser::verif_check_checksum(&buf[..n], transmitted) {
        Ok(v) => assert!(transmitted == x && v == x, "C02: accepted only if the XOR of every byte of the range equals the transmitted value"),
        Err(Error::Checksum { expected, found }) => {
            assert!(transmitted != x && expected == transmitted && found == x, "C02: checksum error carries (transmitted, computed) and is raised only on a mismatch")
        }
        Err(_) => assert!(false, "C02: only a checksum error can come out of the gate"),
    }
    crate::cover!(n == MAXN && transmitted == x, "full-length match reachable");
    crate::cover!(n == MAXN && transmitted != x, "full-length mismatch reachable");
}

pub fn c02_fold_n96<N: Nd>(nd: &mut N) {
    fold_ok::<N, 96>(nd)
}
pub fn c02_fold_n400<N: Nd>(nd: &mut N) {
    fold_ok::<N, 400>(nd)
}

pub mod w96 {
    use super::*;
    crate::harnesses!(L96; plain; unwind 98; c02_fold_n96);
}
pub mod w400 {
    use super::*;
    crate::harnesses!(L400; plain; unwind 402; c02_fold_n400);
}
